t :
