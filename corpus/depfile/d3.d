a: b
a: c
