#![no_main]
// string -> canonicalize_path.  Oracle: idempotent, not longer, same location by an independent resolver.
use libfuzzer_sys::fuzz_target;
mod common;

fn is_sep(c: char) -> bool {
    c == '/' || c == '\\'
}
fn resolve(p: &str) -> (bool, usize, Vec<String>) {
    let rooted = p.chars().next().map(is_sep).unwrap_or(false);
    let body = if rooted { &p[1..] } else { p };
    let (mut ups, mut names) = (0, vec![]);
    for c in body.split(is_sep) {
        match c {
            "" | "." => {}
            ".." => {
                if names.pop().is_none() {
                    ups += 1;
                }
            }
            c => names.push(c.to_string()),
        }
    }
    (rooted, ups, names)
}

fuzz_target!(|data: &[u8]| {
    thread_local! { static INIT: () = common::install_hook(); }
    INIT.with(|_| {});
    let Ok(s) = std::str::from_utf8(data) else { return };
    if s.is_empty() {
        return;
    }
    let input = s.to_string();
    let Some(out) = common::guarded(move || {
        let mut p = input;
        n2::canon::canonicalize_path(&mut p);
        p
    }) else { return };
    let o2 = out.clone();
    let Some(again) = common::guarded(move || {
        let mut p = o2;
        n2::canon::canonicalize_path(&mut p);
        p
    }) else { return };
    if out.len() > s.len() || again != out || resolve(&out) != resolve(s) {
        eprintln!("canonicalize_path({:?}) = {:?} (again: {:?})", s, out, again);
        std::process::abort();
    }
});
