// Shared oracle pieces for the fuzz targets (kept free of dependencies).

/// Shape of n2's syntax diagnostics: `parse error: <msg>\n<file>:<line>: <excerpt>\n<spaces>^\n`.
/// `strict_caret`: also require the caret to point into the excerpt (only meaningful when the input is valid UTF-8;
/// on binary garbage n2 trims the excerpt on character boundaries and the caret column is not comparable).
pub fn parse_error_shape_ok(text: &str, strict_caret: bool) -> bool {
    let Some(rest) = text.strip_prefix("parse error: ") else { return false };
    let lines: Vec<&str> = rest.split('\n').collect();
    if lines.len() != 4 || !lines[3].is_empty() {
        return false;
    }
    let Some((file, loc)) = lines[1].split_once(':') else { return false };
    let Some((num, excerpt)) = loc.split_once(": ") else { return false };
    if num.parse::<usize>().map(|n| n == 0).unwrap_or(true) {
        return false;
    }
    let caret = lines[2];
    if !caret.ends_with('^') || !caret[..caret.len() - 1].bytes().all(|c| c == b' ') {
        return false;
    }
    let col = caret.len() - 1;
    let start = file.len() + 1 + num.len() + 2;
    !strict_caret || (col >= start && col <= start + excerpt.len() + 3)
}

/// Panics that are listed findings: tolerated so that a campaign does not rediscover one crash forever.
pub fn tolerated_panic(msg: &str) -> bool {
    msg.contains("too many path components")
}

pub fn install_hook() {
    std::panic::set_hook(Box::new(|info| {
        let msg = if let Some(s) = info.payload().downcast_ref::<&str>() { s.to_string() } else if let Some(s) = info.payload().downcast_ref::<String>() { s.clone() } else { String::new() };
        LAST.with(|l| *l.borrow_mut() = msg);
    }));
}
thread_local! { pub static LAST: std::cell::RefCell<String> = std::cell::RefCell::new(String::new()); }

/// Run `f`; an unwinding panic that is not a listed finding aborts the process (libFuzzer records the input).
pub fn guarded<T>(f: impl FnOnce() -> T + std::panic::UnwindSafe) -> Option<T> {
    match std::panic::catch_unwind(f) {
        Ok(v) => Some(v),
        Err(_) => {
            let msg = LAST.with(|l| l.borrow().clone());
            if tolerated_panic(&msg) {
                None
            } else {
                eprintln!("n2 panicked: {}", msg);
                std::process::abort();
            }
        }
    }
}
