#![no_main]
// bytes -> depfile.  Oracle: Ok or well-formed diagnostic naming the file; no panic; bounded scanning.
use libfuzzer_sys::fuzz_target;
mod common;

fuzz_target!(|data: &[u8]| {
    thread_local! { static INIT: () = common::install_hook(); }
    INIT.with(|_| {});
    let valid = std::str::from_utf8(data).is_ok();
    let b = data.to_vec();
    n2::verif::set_scan_budget(Some(64 * b.len() as u64 + 4096));
    let r = common::guarded(move || n2::verif::parse_depfile(&b, "x.d"));
    n2::verif::set_scan_budget(None);
    if let Some(Err(e)) = r {
        let e = String::from_utf8_lossy(e.as_bytes()).into_owned();
        if !common::parse_error_shape_ok(&e, valid) || !e.contains("\nx.d:") {
            eprintln!("malformed diagnostic: {:?}", e);
            std::process::abort();
        }
    }
});
