#![no_main]
// bytes -> manifest (first section) + an included file (second section, separated by a 0xFE byte).
// Oracle: Ok or a non-empty diagnostic with the documented shape for syntax errors; no panic, no abort
// (debug assertions are on: unchecked out-of-bounds reads abort), bounded scanning.
use libfuzzer_sys::fuzz_target;
mod common;

fn setup() -> std::path::PathBuf {
    let d = std::path::PathBuf::from(format!("/dev/shm/n2fuzz.{}", std::process::id()));
    let _ = std::fs::create_dir_all(d.join("x"));
    std::env::set_current_dir(&d).unwrap();
    common::install_hook();
    d
}

fuzz_target!(|data: &[u8]| {
    thread_local! { static DIR: std::path::PathBuf = setup(); }
    DIR.with(|_| {});
    let (main, inc) = match data.iter().position(|&c| c == 0xFE) {
        Some(i) => (&data[..i], &data[i + 1..]),
        None => (data, &b"y = 1\n"[..]),
    };
    // Eager top-level bindings can double a value per line (`y = $y$y`): expansion is exponential in the number of
    // references by the language's own semantics, so such inputs only burn time.  Keep the count small.
    if data.iter().filter(|&&c| c == b'$').count() > 16 {
        return;
    }
    let _ = std::fs::write("p", inc);
    let valid = std::str::from_utf8(main).is_ok() && std::str::from_utf8(inc).is_ok();
    let mut buf = main.to_vec();
    buf.push(0);
    n2::verif::set_scan_budget(Some(64 * (buf.len() as u64 + inc.len() as u64) + 8192));
    let r = common::guarded(move || {
        let mut loader = n2::load::Loader::new();
        let mut parser = n2::parse::Parser::new(&buf);
        loader.parse_with_parser(&mut parser, std::path::PathBuf::from("build.ninja"), &[]).map_err(|e| e.to_string())
    });
    n2::verif::set_scan_budget(None);
    if let Some(Err(e)) = r {
        let e = String::from_utf8_lossy(e.as_bytes()).into_owned();
        if e.is_empty() || (e.starts_with("parse error: ") && !common::parse_error_shape_ok(&e, valid)) {
            eprintln!("malformed diagnostic: {:?}", e);
            std::process::abort();
        }
    }
});
