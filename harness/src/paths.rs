//! Independent lexical path resolution (the reference for C13 and for name comparison in `syn`).
//! Both '/' and '\\' separate components, as in n2.

pub fn is_sep(c: char) -> bool {
    c == '/' || c == '\\'
}

#[derive(Clone, Debug, PartialEq, Eq)]
pub struct Resolved {
    /// the root separator, if the path starts with one
    pub root: Option<char>,
    /// number of `..` that climb above the starting point (kept even below a root, as n2 keeps them)
    pub ups: usize,
    pub names: Vec<String>,
}

/// Where a path leads, by the usual lexical rules: `.` and empty components vanish, `name/..` cancels.
pub fn resolve(p: &str) -> Resolved {
    let mut chars = p.chars();
    let root = match p.chars().next() {
        Some(c) if is_sep(c) => {
            chars.next();
            Some(c)
        }
        _ => None,
    };
    let rest: String = chars.collect();
    let mut names: Vec<String> = vec![];
    let mut ups = 0;
    for comp in rest.split(is_sep) {
        match comp {
            "" | "." => {}
            ".." => {
                if names.pop().is_none() {
                    ups += 1;
                }
            }
            c => names.push(c.to_string()),
        }
    }
    Resolved { root, ups, names }
}

/// Components of a path string as written (no interpretation).
pub fn components(p: &str) -> Vec<&str> {
    p.split(is_sep).collect()
}

/// A relative path without climbing `..` whose last component is an ordinary name: for these the
/// canonical spelling is unambiguous (names joined by the separators that followed them).
pub fn is_tame(p: &str) -> bool {
    let r = resolve(p);
    let last = p.rsplit(is_sep).next().unwrap_or("");
    r.root.is_none() && r.ups == 0 && !r.names.is_empty() && !last.is_empty() && last != "." && last != ".." && !p.contains('\\')
}

pub fn tame_canon(p: &str) -> String {
    resolve(p).names.join("/")
}

/// Directory form: the path as written ends in a separator or in a `.`/`..` component.
pub fn dir_form(p: &str) -> bool {
    let last = p.rsplit(is_sep).next().unwrap_or("");
    p.contains(is_sep) && (last.is_empty() || last == "." || last == "..")
}

/// Relative, not climbing, at least one name left, written in directory form: canonical spelling is names + "/".
pub fn is_tame_dir(p: &str) -> bool {
    let r = resolve(p);
    r.root.is_none() && r.ups == 0 && !r.names.is_empty() && dir_form(p) && !p.contains('\\')
}

/// Identity of the graph node a written path denotes (a trailing separator is significant).
pub fn node_key(p: &str) -> String {
    let r = resolve(p);
    let dir = dir_form(p) && !(r.names.is_empty() && r.ups == 0);
    format!("{:?}|{}", r, dir)
}
