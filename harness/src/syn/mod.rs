pub mod ast;
pub mod checks;
pub mod gen;
