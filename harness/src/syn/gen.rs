//! Generators of abstract manifests (C10 structure/spelling, C11 scoping, C14 duplicates).

use super::ast::*;
use crate::tape::Tape;

#[derive(Clone, Debug)]
pub struct SynOpts {
    /// emphasise variables (C11) rather than structure (C10)
    pub vars_heavy: bool,
    pub children: bool,
    pub respell_pct: usize,
    pub special_chars_pct: usize,
}

const VAR_POOL: [&str; 6] = ["x", "y", "zed", "v_1", "a.b", "q-r"];
const LIT_POOL: [&str; 14] = ["a", "b7", "foo", "-o", ".", "/", "=", "\u{e9}", "\u{20ac}t", " ", "x y", "#", "|", ":"];
const PATH_LIT: [&str; 10] = ["a", "b", "src", "d/", "\u{e9}", "n.1", "_", "-", "/sub", "e/"];

pub struct Gen<'t, 'a> {
    pub t: &'t mut Tape<'a>,
    pub o: SynOpts,
    pub counter: usize,
    pub rules: Vec<String>,
    /// per rule: user variables its bindings refer to
    pub rule_refs: Vec<Vec<String>>,
    pub features: Vec<&'static str>,
}

impl<'t, 'a> Gen<'t, 'a> {
    fn var_name(&mut self) -> String {
        if self.t.chance(3) {
            // user variables that happen to be called like the implicit ones: they never shadow $in/$out in a rule
            return ["in", "out"][self.t.below(2)].to_string();
        }
        let n = if self.o.vars_heavy { 4 } else { VAR_POOL.len() };
        VAR_POOL[self.t.below(n)].to_string()
    }
    fn value(&mut self, in_rule: bool) -> Val {
        if self.t.chance(8) {
            // nothing but one reference: the whole text comes from elsewhere
            return vec![Piece::Var(self.var_name())];
        }
        let n = self.t.below(4) + if in_rule { 1 } else { 0 };
        let mut v: Val = vec![];
        for _ in 0..n {
            let var_pct = if self.o.vars_heavy { 55 } else { 30 };
            if self.t.chance(var_pct) {
                if in_rule && self.t.chance(35) {
                    v.push(Piece::Var(["in", "out", "in_newline", "out_newline"][self.t.weighted(&[4, 4, 1, 1])].to_string()));
                } else {
                    v.push(Piece::Var(self.var_name()));
                }
            } else {
                let l = if self.t.chance(self.o.special_chars_pct) { ["$", "$x", " lead", "tr ", "a$b"][self.t.below(5)] } else { LIT_POOL[self.t.below(LIT_POOL.len())] };
                v.push(Piece::Lit(l.to_string()));
            }
        }
        // a value never ends with a space-only tail that editors would strip? n2 keeps it; so do we.
        v
    }
    fn path(&mut self, unique: bool) -> PathSpec {
        if !unique && self.t.chance(2) {
            // an input path that expands to nothing (an undefined variable): it stays in its section as the empty name
            self.features.push("empty-expansion-input");
            return PathSpec { val: vec![Piece::Var("undefined_zz".into())], respell: None, dir_suffix: None };
        }
        let mut v: Val = vec![];
        if self.t.chance(if self.o.vars_heavy { 35 } else { 15 }) {
            v.push(Piece::Var(self.var_name()));
        }
        if self.t.chance(30) {
            v.push(Piece::Lit(PATH_LIT[self.t.below(PATH_LIT.len())].to_string()));
            if self.t.chance(25) {
                // a second piece: parts may meet separator to separator (`d/` + `/sub`)
                v.push(Piece::Lit(PATH_LIT[self.t.below(PATH_LIT.len())].to_string()));
            }
        }
        if self.t.chance(self.o.special_chars_pct) {
            self.features.push("escaped-path");
            v.push(Piece::Lit(["a b", "c:", "$d", "e $:"][self.t.below(4)].to_string()));
        }
        if unique {
            self.counter += 1;
            v.push(Piece::Lit(format!("o{}", self.counter)));
        } else {
            v.push(Piece::Lit(format!("{}{}", ["s", "o", "lib/s"][self.t.below(3)], self.t.below(8))));
        }
        // redundant components are inserted by the renderer in front of the last component of the
        // written text, which is location-preserving only if no variable hides a separator
        let literal = v.iter().all(|p| matches!(p, Piece::Lit(_)));
        let respell = if self.t.chance(self.o.respell_pct) && literal { Some(self.t.below(5) as u8) } else { None };
        // directory-form paths (three spellings of `name/`) as inputs: one node whatever the spelling
        let dir_suffix = if !unique && literal && respell.is_none() && self.t.chance(self.o.respell_pct) { Some(self.t.below(3) as u8) } else { None };
        PathSpec { val: v, respell, dir_suffix }
    }
    fn binds(&mut self, n: usize, attrs: bool) -> Vec<(String, Val)> {
        let mut b = vec![];
        for _ in 0..n {
            let name = if attrs && self.t.chance(35) { ["command", "description", "pool", "depfile"][self.t.below(4)].to_string() } else { self.var_name() };
            let v = self.value(false);
            b.push((name, v));
        }
        b
    }
    fn rule(&mut self) -> Stmt {
        let name = format!("{}{}", ["r", "cc.x", "link-y_"][self.t.below(3)], self.rules.len());
        self.rules.push(name.clone());
        let mut b: Vec<(String, Val)> = vec![];
        if self.t.chance(92) {
            let mut v = self.value(true);
            if v.is_empty() {
                v.push(Piece::Lit("cmd".into()));
            }
            b.push(("command".into(), v));
        }
        if self.t.chance(35) {
            b.push(("description".into(), self.value(true)));
        }
        if self.t.chance(25) {
            b.push(("depfile".into(), self.value(true)));
        }
        if self.t.chance(25) {
            b.push(("deps".into(), vec![Piece::Lit(["gcc", "msvc"][self.t.below(2)].into())]));
        }
        if self.t.chance(20) {
            if self.t.chance(40) {
                // a pool chosen per build statement through a variable
                let mut v = vec![Piece::Var(self.var_name())];
                if self.t.chance(30) {
                    v.push(Piece::Lit("_pool".into()));
                }
                b.push(("pool".into(), v));
            } else {
                b.push(("pool".into(), vec![Piece::Lit(["link", "console", "p0"][self.t.below(3)].into())]));
            }
        }
        if self.t.chance(20) {
            b.push(("rspfile".into(), self.value(true)));
            b.push(("rspfile_content".into(), self.value(true)));
        }
        if self.t.chance(10) {
            b.push((["hide_success", "hide_progress", "restat", "generator"][self.t.below(4)].into(), vec![Piece::Lit("1".into())]));
        }
        // occasionally re-bind a key inside the block: the later binding wins
        if self.t.chance(8) && !b.is_empty() {
            let k = b[self.t.below(b.len())].0.clone();
            if k != "deps" && k != "rspfile" && k != "rspfile_content" {
                b.push((k, self.value(true)));
            }
        }
        let n = b.len();
        for i in (1..n).rev() {
            let j = self.t.below(i + 1);
            b.swap(i, j);
        }
        let mut refs: Vec<String> = vec![];
        for (_, v) in &b {
            for p in v {
                if let Piece::Var(x) = p {
                    if !["in", "out", "in_newline", "out_newline"].contains(&x.as_str()) && !refs.contains(x) {
                        refs.push(x.clone());
                    }
                }
            }
        }
        self.rule_refs.push(refs);
        Stmt::Rule(name, b)
    }
    fn build(&mut self) -> Stmt {
        let no = 1 + if self.t.chance(35) { 1 + self.t.below(2) } else { 0 };
        let outs: Vec<PathSpec> = (0..no).map(|_| self.path(true)).collect();
        let nexp_outs = 1 + self.t.below(no);
        let ri = if self.rules.is_empty() || self.t.chance(12) { None } else { Some(self.t.below(self.rules.len())) };
        let rule = ri.map(|i| self.rules[i].clone()).unwrap_or_else(|| "phony".to_string());
        let mut ins: [Vec<PathSpec>; 4] = Default::default();
        for k in 0..4 {
            let pct = [75, 35, 30, 20][k];
            if self.t.chance(pct) {
                let n = 1 + self.t.below(3);
                ins[k] = (0..n).map(|_| self.path(false)).collect();
            }
        }
        let nb = if self.t.chance(if self.o.vars_heavy { 60 } else { 30 }) { 1 + self.t.below(3) } else { 0 };
        let mut binds = self.binds(nb, true);
        if let Some(i) = ri {
            // what the rule refers to, supplied by the build block as a bare reference to something else
            if !self.rule_refs[i].is_empty() && self.t.chance(20) {
                let k = self.t.below(self.rule_refs[i].len());
                let name = self.rule_refs[i][k].clone();
                let target = self.var_name();
                self.features.push("build-level-indirection");
                let at = self.t.below(binds.len() + 1);
                binds.insert(at, (name, vec![Piece::Var(target)]));
            }
        }
        Stmt::Build(BuildStmt { outs, nexp_outs, rule, ins, binds })
    }
    fn stmts(&mut self, n: usize, depth: usize, files: &mut Vec<MFile>) -> Vec<Stmt> {
        let mut v = vec![];
        for _ in 0..n {
            let w: [usize; 8] = if self.o.vars_heavy { [8, 3, 6, 1, 1, 1, 2, 2] } else { [3, 4, 8, 1, 1, 1, 1, 1] };
            match self.t.weighted(&w) {
                0 => {
                    let n = if self.t.chance(6) { "builddir".to_string() } else { self.var_name() };
                    let val = self.value(false);
                    v.push(Stmt::Bind(n, val));
                }
                1 => v.push(self.rule()),
                2 => v.push(self.build()),
                3 => {
                    let n = 1 + self.t.below(2);
                    let ps = (0..n).map(|_| self.path(false)).collect();
                    v.push(Stmt::Default(ps));
                }
                4 => {
                    let d = if self.t.chance(85) { Some(self.t.below(5)) } else { None };
                    v.push(Stmt::Pool(["link", "p0", "console"][self.t.below(3)].to_string(), d));
                }
                5 => v.push(Stmt::Comment([" a comment", " build x: phony", "$", ""][self.t.below(4)].to_string())),
                k => {
                    // the same file read a second time by the same parent (a template, or shared settings)
                    let earlier: Vec<usize> = v.iter().filter_map(|s| if let Stmt::Include(i) | Stmt::Subninja(i) = s { Some(*i) } else { None }).collect();
                    if self.o.children && !earlier.is_empty() && self.t.chance(25) {
                        let idx = earlier[self.t.below(earlier.len())];
                        self.features.push("same-file-read-twice");
                        v.push(if k == 6 { Stmt::Include(idx) } else { Stmt::Subninja(idx) });
                        continue;
                    }
                    if self.o.children && depth < 2 && files.len() < 4 {
                        let idx = files.len();
                        files.push(MFile { name: format!("{}{}.ninja", ["sub/child", "inc"][self.t.below(2)], idx), stmts: vec![] });
                        let n = 1 + self.t.below(4);
                        let st = self.stmts(n, depth + 1, files);
                        files[idx].stmts = st;
                        if k == 6 {
                            self.features.push("include");
                            v.push(Stmt::Include(idx));
                        } else {
                            self.features.push("subninja");
                            v.push(Stmt::Subninja(idx));
                        }
                    }
                }
            }
        }
        v
    }
    pub fn manifest(&mut self) -> Manifest {
        let mut files = vec![MFile { name: "build.ninja".into(), stmts: vec![] }];
        let n = 2 + self.t.below(9);
        let st = self.stmts(n, 0, &mut files);
        files[0].stmts = st;
        Manifest { files }
    }
}

/// Does some variable get bound at two levels (file and build block), or re-bound later in a file, and is referenced?
pub fn has_shadowing(m: &Manifest) -> bool {
    let mut file_bound: Vec<&String> = vec![];
    let mut rebinding = false;
    let mut build_shadow = false;
    let mut referenced: Vec<&String> = vec![];
    fn refs<'a>(v: &'a Val, out: &mut Vec<&'a String>) {
        for p in v {
            if let Piece::Var(n) = p {
                out.push(n);
            }
        }
    }
    for f in &m.files {
        for s in &f.stmts {
            match s {
                Stmt::Bind(n, v) => {
                    if file_bound.contains(&n) {
                        rebinding = true;
                    }
                    file_bound.push(n);
                    refs(v, &mut referenced);
                }
                Stmt::Rule(_, b) => {
                    for (_, v) in b {
                        refs(v, &mut referenced);
                    }
                }
                Stmt::Build(b) => {
                    for (k, v) in &b.binds {
                        if file_bound.contains(&k) {
                            build_shadow = true;
                        }
                        refs(v, &mut referenced);
                    }
                    for p in b.outs.iter().chain(b.ins.iter().flatten()) {
                        refs(&p.val, &mut referenced);
                    }
                }
                _ => {}
            }
        }
    }
    (rebinding || build_shadow) && referenced.iter().any(|r| file_bound.contains(r))
}
