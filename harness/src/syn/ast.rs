//! Abstract manifests, a reference evaluator written from the Ninja scoping
//! rules (property C11 / doc/design_notes.md) and a renderer with random
//! concrete spelling.  Shares no code with n2's parser or loader.

use crate::tape::Tape;
use serde::Serialize;
use std::collections::BTreeMap;

#[derive(Clone, Debug, Serialize, PartialEq)]
pub enum Piece {
    Lit(String),
    Var(String),
}
pub type Val = Vec<Piece>;

#[derive(Clone, Debug, Serialize)]
pub struct PathSpec {
    /// value as written (before evaluation)
    pub val: Val,
    /// redundant components inserted in front of the final component by the renderer: (position class, kind)
    pub respell: Option<u8>,
    /// directory form: the written path ends in `/` (0), `/.` (1) or `/zz/..` (2) -- three spellings of one name
    pub dir_suffix: Option<u8>,
}

pub fn dir_suffix_text(k: u8) -> &'static str {
    match k % 3 {
        0 => "/",
        1 => "/.",
        _ => "/zz/..",
    }
}

#[derive(Clone, Debug, Serialize)]
pub struct BuildStmt {
    pub outs: Vec<PathSpec>,
    pub nexp_outs: usize,
    pub rule: String,
    pub ins: [Vec<PathSpec>; 4],
    pub binds: Vec<(String, Val)>,
}

#[derive(Clone, Debug, Serialize)]
pub enum Stmt {
    Bind(String, Val),
    Rule(String, Vec<(String, Val)>),
    Build(BuildStmt),
    Default(Vec<PathSpec>),
    Pool(String, Option<usize>),
    Include(usize),
    Subninja(usize),
    Comment(String),
}

#[derive(Clone, Debug, Serialize)]
pub struct MFile {
    pub name: String,
    pub stmts: Vec<Stmt>,
}

#[derive(Clone, Debug, Serialize)]
pub struct Manifest {
    pub files: Vec<MFile>,
}

// -------------------------------------------------------------------------------------------
// expected result

#[derive(Clone, Debug, Default, PartialEq, Serialize)]
pub struct XStep {
    pub file: String,
    pub line: usize,
    pub outs: Vec<String>,
    pub nexp_outs: usize,
    pub ins: Vec<String>,
    pub counts: (usize, usize, usize),
    pub cmdline: Option<String>,
    pub desc: Option<String>,
    pub depfile: Option<String>,
    pub rspfile: Option<(String, String)>,
    pub pool: Option<String>,
    pub showincludes: bool,
    pub hide_success: bool,
    pub hide_progress: bool,
    /// some explicit path is not tame: texts built from $in/$out are not compared
    pub wild: bool,
}

#[derive(Clone, Debug, Default, PartialEq, Serialize)]
pub struct XDump {
    pub steps: Vec<XStep>,
    pub defaults: Vec<String>,
    pub pools: Vec<(String, usize)>,
    pub builddir: Option<String>,
}

#[derive(Clone, Debug)]
pub enum XErr {
    /// two statements produce the same file: (name, first location, second location)
    DupOutput(String, String, String),
    UnknownRule(String),
    BadDeps(String),
    RspMismatch,
}

pub type Scope = BTreeMap<String, String>;

/// Expected spelling of a path after n2's canonicalisation: exact for tame paths (relative, not
/// climbing, ordinary last component); for the others only the location is compared (see `same_name`).
pub fn canon(p: &str) -> String {
    if crate::paths::is_tame(p) {
        crate::paths::tame_canon(p)
    } else if crate::paths::is_tame_dir(p) {
        format!("{}/", crate::paths::tame_canon(p))
    } else {
        p.to_string()
    }
}

/// Does the loaded name denote what the manifest said?
pub fn same_name(expected: &str, got: &str) -> bool {
    expected == got || (!crate::paths::is_tame(expected) && !crate::paths::is_tame_dir(expected) && crate::paths::resolve(expected) == crate::paths::resolve(got))
}

fn eval_in_scope(v: &Val, scope: &Scope) -> String {
    let mut s = String::new();
    for p in v {
        match p {
            Piece::Lit(l) => s.push_str(l),
            Piece::Var(n) => s.push_str(scope.get(n).map(|x| x.as_str()).unwrap_or("")),
        }
    }
    s
}

/// A value found in the build block is expanded in file scope only (no sibling bindings).
fn eval_path(v: &Val, binds: &[(String, Val)], scope: &Scope) -> String {
    let mut s = String::new();
    for p in v {
        match p {
            Piece::Lit(l) => s.push_str(l),
            Piece::Var(n) => match lookup_bind(binds, n) {
                Some(bv) => s.push_str(&eval_in_scope(bv, scope)),
                None => s.push_str(scope.get(n).map(|x| x.as_str()).unwrap_or("")),
            },
        }
    }
    s
}

/// Last binding of a name in a block wins (re-binding replaces).
fn lookup_bind<'a>(binds: &'a [(String, Val)], name: &str) -> Option<&'a Val> {
    binds.iter().rev().find(|(k, _)| k == name).map(|(_, v)| v)
}

struct Implicit {
    vin: String,
    vout: String,
    vin_nl: String,
    vout_nl: String,
}

/// A rule binding: $in/$out..., then the build block (each expanded in file scope), then file scope.
fn eval_rule_val(v: &Val, imp: &Implicit, binds: &[(String, Val)], scope: &Scope) -> String {
    let mut s = String::new();
    for p in v {
        match p {
            Piece::Lit(l) => s.push_str(l),
            Piece::Var(n) => match n.as_str() {
                "in" => s.push_str(&imp.vin),
                "out" => s.push_str(&imp.vout),
                "in_newline" => s.push_str(&imp.vin_nl),
                "out_newline" => s.push_str(&imp.vout_nl),
                _ => match lookup_bind(binds, n) {
                    Some(bv) => s.push_str(&eval_in_scope(bv, scope)),
                    None => s.push_str(scope.get(n).map(|x| x.as_str()).unwrap_or("")),
                },
            },
        }
    }
    s
}

pub struct Evaluator<'a> {
    pub m: &'a Manifest,
    pub rules: BTreeMap<String, Vec<(String, Val)>>,
    pub producers: BTreeMap<String, String>,
    pub out: XDump,
    /// line of each build statement: (file index, statement index) -> line, filled by the renderer
    pub lines: &'a BTreeMap<(usize, usize), usize>,
    /// true when an included file defined a variable that the including file read afterwards
    pub include_extends_used: bool,
    pub include_defined: Vec<String>,
    pub warnings: Vec<String>,
}

impl<'a> Evaluator<'a> {
    pub fn run(m: &'a Manifest, lines: &'a BTreeMap<(usize, usize), usize>) -> (Result<XDump, XErr>, bool, Vec<String>) {
        let mut e = Evaluator { m, rules: BTreeMap::new(), producers: BTreeMap::new(), out: XDump::default(), lines, include_extends_used: false, include_defined: vec![], warnings: vec![] };
        e.rules.insert("phony".into(), vec![]);
        let mut scope = Scope::new();
        let r = e.file(0, &mut scope);
        let w = std::mem::take(&mut e.warnings);
        match r {
            Ok(()) => {
                e.out.builddir = scope.get("builddir").cloned();
                if e.include_defined.iter().any(|k| k == "builddir") {
                    // the top-level scope only sees it if `include` extends the including scope (finding F9)
                    e.include_extends_used = true;
                }
                let ext = e.include_extends_used;
                (Ok(e.out), ext, w)
            }
            Err(x) => (Err(x), e.include_extends_used, w),
        }
    }

    fn note_reads(&mut self, v: &Val, binds: &[(String, Val)]) {
        for p in v {
            if let Piece::Var(n) = p {
                if self.include_defined.contains(n) {
                    self.include_extends_used = true;
                }
                if let Some(bv) = lookup_bind(binds, n) {
                    let bv = bv.clone();
                    self.note_reads(&bv, &[]);
                }
            }
        }
    }

    fn file(&mut self, fi: usize, scope: &mut Scope) -> Result<(), XErr> {
        let f = &self.m.files[fi];
        for (si, st) in f.stmts.iter().enumerate() {
            match st {
                Stmt::Comment(_) => {}
                Stmt::Bind(n, v) => {
                    self.note_reads(v, &[]);
                    let val = eval_in_scope(v, scope);
                    scope.insert(n.clone(), val);
                }
                Stmt::Rule(n, binds) => {
                    self.rules.insert(n.clone(), binds.clone());
                }
                Stmt::Pool(n, d) => {
                    let d = d.unwrap_or(0);
                    if let Some(p) = self.out.pools.iter_mut().find(|p| p.0 == *n) {
                        p.1 = d;
                    } else {
                        self.out.pools.push((n.clone(), d));
                    }
                }
                Stmt::Default(paths) => {
                    for p in paths {
                        self.note_reads(&p.val, &[]);
                        let s = canon(&format!("{}{}", eval_in_scope(&p.val, scope), p.dir_suffix.map(dir_suffix_text).unwrap_or("")));
                        self.out.defaults.push(s);
                    }
                }
                Stmt::Include(ci) => {
                    // included files see and extend the including scope
                    let before: Vec<String> = scope.keys().cloned().collect();
                    let snapshot = scope.clone();
                    self.file(*ci, scope)?;
                    for (k, v) in scope.iter() {
                        if !before.contains(k) || snapshot.get(k) != Some(v) {
                            if !self.include_defined.contains(k) {
                                self.include_defined.push(k.clone());
                            }
                        }
                    }
                }
                Stmt::Subninja(ci) => {
                    let mut copy = scope.clone();
                    self.file(*ci, &mut copy)?;
                }
                Stmt::Build(b) => {
                    let line = self.lines.get(&(fi, si)).copied().unwrap_or(0);
                    let loc = format!("{}:{}", f.name, line);
                    let mut ins = vec![];
                    let mut ins_raw: Vec<String> = vec![];
                    for sec in &b.ins {
                        for p in sec {
                            self.note_reads(&p.val, &b.binds);
                            let raw = format!("{}{}", eval_path(&p.val, &b.binds, scope), p.dir_suffix.map(dir_suffix_text).unwrap_or(""));
                            ins.push(canon(&raw));
                            ins_raw.push(raw);
                        }
                    }
                    let mut outs_raw = vec![];
                    for p in &b.outs {
                        self.note_reads(&p.val, &b.binds);
                        outs_raw.push(canon(&format!("{}{}", eval_path(&p.val, &b.binds, scope), p.dir_suffix.map(dir_suffix_text).unwrap_or(""))));
                    }
                    // outputs repeated inside one statement count once (first occurrence), with a warning
                    let mut outs: Vec<String> = vec![];
                    let mut nexp = 0;
                    for (i, o) in outs_raw.iter().enumerate() {
                        if outs.iter().any(|p: &String| crate::paths::node_key(p) == crate::paths::node_key(o)) {
                            self.warnings.push(o.clone());
                            continue;
                        }
                        outs.push(o.clone());
                        if i < b.nexp_outs {
                            nexp += 1;
                        }
                    }
                    let Some(rule) = self.rules.get(&b.rule).cloned() else { return Err(XErr::UnknownRule(b.rule.clone())) };
                    let imp = Implicit {
                        vin: ins[..b.ins[0].len()].join(" "),
                        vin_nl: ins[..b.ins[0].len()].join("\n"),
                        // $out lists the explicit outputs as written (n2 evaluates it before de-duplication)
                        vout: outs_raw[..b.nexp_outs].join(" "),
                        vout_nl: outs_raw[..b.nexp_outs].join("\n"),
                    };
                    for (_, v) in b.binds.iter().chain(rule.iter()) {
                        self.note_reads(v, &b.binds);
                    }
                    let lookup = |key: &str| -> Option<String> {
                        match lookup_bind(&b.binds, key) {
                            Some(v) => Some(eval_in_scope(v, scope)),
                            None => lookup_bind(&rule, key).map(|v| eval_rule_val(v, &imp, &b.binds, scope)),
                        }
                    };
                    let showincludes = match lookup("deps").as_deref() {
                        None | Some("gcc") => false,
                        Some("msvc") => true,
                        Some(o) => return Err(XErr::BadDeps(o.to_string())),
                    };
                    let rspfile = match (lookup("rspfile"), lookup("rspfile_content")) {
                        (None, None) => None,
                        (Some(p), Some(c)) => Some((p, c)),
                        _ => return Err(XErr::RspMismatch),
                    };
                    for o in &outs {
                        let key = crate::paths::node_key(o);
                        if let Some(prev) = self.producers.get(&key) {
                            return Err(XErr::DupOutput(o.clone(), prev.clone(), loc));
                        }
                    }
                    for o in &outs {
                        self.producers.insert(crate::paths::node_key(o), loc.clone());
                    }
                    let step = XStep {
                        file: f.name.clone(),
                        line,
                        outs,
                        nexp_outs: nexp,
                        ins,
                        counts: (b.ins[0].len(), b.ins[1].len(), b.ins[2].len()),
                        cmdline: lookup("command"),
                        desc: lookup("description"),
                        depfile: lookup("depfile"),
                        rspfile,
                        pool: lookup("pool"),
                        showincludes,
                        hide_success: lookup("hide_success").is_some(),
                        hide_progress: lookup("hide_progress").is_some(),
                        wild: outs_raw.iter().chain(ins_raw.iter()).any(|p| !crate::paths::is_tame(p) && !crate::paths::is_tame_dir(p)),
                    };
                    self.out.steps.push(step);
                }
            }
        }
        Ok(())
    }
}

// -------------------------------------------------------------------------------------------
// rendering

pub struct Rendered {
    pub files: BTreeMap<String, String>,
    pub lines: BTreeMap<(usize, usize), usize>,
    pub features: Vec<&'static str>,
}

fn name_char(c: char) -> bool {
    c.is_ascii_alphanumeric() || c == '_' || c == '-'
}

fn esc_lit(l: &str, path: bool, first: bool) -> String {
    let mut o = String::new();
    for (i, c) in l.chars().enumerate() {
        match c {
            '$' => o.push_str("$$"),
            ' ' if path || (first && i == 0) => o.push_str("$ "),
            ':' if path => o.push_str("$:"),
            _ => o.push(c),
        }
    }
    o
}

pub struct Renderer<'t, 'a> {
    pub t: &'t mut Tape<'a>,
    /// 0 = plain canonical spelling; higher = more variation
    pub variation: usize,
    pub features: Vec<&'static str>,
    pub line: usize,
}

impl<'t, 'a> Renderer<'t, 'a> {
    fn sp(&mut self) -> String {
        // one or more spaces, sometimes a `$`-newline continuation with indentation
        if self.variation == 0 {
            return " ".into();
        }
        match self.t.weighted(&[10, 3, 2]) {
            0 => " ".into(),
            1 => " ".repeat(2 + self.t.below(2)),
            _ => {
                self.features.push("continuation-between-tokens");
                self.line += 1;
                let mut o = format!(" $\n{}", " ".repeat(self.t.below(5)));
                // continued lines holding nothing but a further continuation
                while self.t.chance(25) {
                    self.features.push("continuation-after-continuation");
                    self.line += 1;
                    o.push_str(&format!("$\n{}", " ".repeat(self.t.below(4))));
                }
                o
            }
        }
    }
    fn osp(&mut self) -> String {
        // optional space
        if self.variation == 0 || !self.t.chance(30) {
            String::new()
        } else {
            " ".repeat(1 + self.t.below(2))
        }
    }
    pub fn val(&mut self, v: &Val, path: bool) -> String {
        let mut o = String::new();
        // merge adjacent literals so that escaping of a leading space is decided once
        let mut i = 0;
        while i < v.len() {
            match &v[i] {
                Piece::Lit(l) => {
                    let mut text = l.clone();
                    while i + 1 < v.len() {
                        if let Piece::Lit(l2) = &v[i + 1] {
                            text.push_str(l2);
                            i += 1;
                        } else {
                            break;
                        }
                    }
                    let first = o.is_empty();
                    let e = esc_lit(&text, path, first);
                    // a continuation inside a literal: `$`-newline plus indentation expands to nothing
                    if self.variation > 0 && e.chars().count() >= 2 && self.t.chance(6) {
                        let chars: Vec<char> = e.chars().collect();
                        let cut = 1 + self.t.below(chars.len() - 1);
                        // never split an escape pair
                        let ok = chars[cut - 1] != '$';
                        if ok {
                            self.features.push("continuation-inside-value");
                            self.line += 1;
                            let a: String = chars[..cut].iter().collect();
                            let b: String = chars[cut..].iter().collect();
                            o.push_str(&a);
                            o.push_str("$\n");
                            o.push_str(&" ".repeat(self.t.below(4)));
                            // the text after the continuation must not start with a space (it would be skipped as indentation)
                            if b.starts_with(' ') {
                                o.push('$');
                            }
                            o.push_str(&b);
                            i += 1;
                            continue;
                        }
                    }
                    o.push_str(&e);
                }
                Piece::Var(n) => {
                    let next_extends = match v.get(i + 1) {
                        Some(Piece::Lit(l)) => l.chars().next().map(name_char).unwrap_or(false),
                        _ => false,
                    };
                    let simple_ok = !n.is_empty() && n.chars().all(name_char) && !next_extends;
                    if simple_ok && !(self.variation > 0 && self.t.chance(40)) {
                        o.push('$');
                        o.push_str(n);
                    } else {
                        if simple_ok {
                            self.features.push("braced-var");
                        }
                        o.push_str("${");
                        o.push_str(n);
                        o.push('}');
                    }
                }
            }
            i += 1;
        }
        o
    }
    fn path(&mut self, p: &PathSpec) -> String {
        let mut body = self.val(&p.val, true);
        if let Some(k) = p.dir_suffix {
            self.features.push("directory-form-path");
            body.push_str(dir_suffix_text(k));
            return body;
        }
        match p.respell {
            None => body,
            Some(k) => {
                self.features.push("redundant-path-components");
                // insert in front of the final component (tail preserving)
                let (head, tail) = match body.rfind('/') {
                    Some(i) => (&body[..i + 1], &body[i + 1..]),
                    None => ("", body.as_str()),
                };
                match k % 5 {
                    0 => format!("{}./{}", head, tail),
                    1 => format!("{}zz/../{}", head, tail),
                    // climbing more than one level at a time, and twice in a row
                    3 => format!("{}zz/yy/../../{}", head, tail),
                    4 => format!("{}zz/../yy/.././{}", head, tail),
                    _ => {
                        if head.is_empty() {
                            format!(".//{}", tail)
                        } else {
                            format!("{}/{}", head, tail)
                        }
                    }
                }
            }
        }
    }
    fn paths(&mut self, ps: &[PathSpec]) -> String {
        let mut o = String::new();
        for p in ps {
            o.push_str(&self.sp());
            o.push_str(&self.path(p));
        }
        o
    }
    fn binds(&mut self, binds: &[(String, Val)]) -> String {
        let mut o = String::new();
        for (k, v) in binds {
            let ind = if self.variation == 0 { 2 } else { 1 + self.t.below(4) };
            o.push_str(&" ".repeat(ind));
            o.push_str(k);
            o.push_str(&self.osp());
            o.push('=');
            o.push_str(&self.osp());
            o.push_str(&self.val(v, false));
            o.push('\n');
            self.line += 1;
        }
        o
    }

    pub fn manifest(&mut self, m: &Manifest) -> Rendered {
        let mut files = BTreeMap::new();
        let mut lines = BTreeMap::new();
        for (fi, f) in m.files.iter().enumerate() {
            self.line = 1;
            let mut t = String::new();
            for (si, st) in f.stmts.iter().enumerate() {
                if self.variation > 0 && self.t.chance(12) {
                    if self.t.chance(50) {
                        t.push('\n');
                    } else {
                        t.push_str("# filler comment: build x: y $\n");
                    }
                    self.line += 1;
                }
                match st {
                    Stmt::Comment(c) => {
                        t.push_str(&format!("#{}\n", c));
                        self.line += 1;
                    }
                    Stmt::Bind(n, v) => {
                        t.push_str(n);
                        t.push_str(&self.osp());
                        t.push('=');
                        t.push_str(&self.osp());
                        t.push_str(&self.val(v, false));
                        t.push('\n');
                        self.line += 1;
                    }
                    Stmt::Rule(n, binds) => {
                        t.push_str(&format!("rule {}\n", n));
                        self.line += 1;
                        t.push_str(&self.binds(binds));
                    }
                    Stmt::Pool(n, d) => {
                        t.push_str(&format!("pool {}\n", n));
                        self.line += 1;
                        if let Some(d) = d {
                            t.push_str(&format!("  depth = {}\n", d));
                            self.line += 1;
                        }
                    }
                    Stmt::Default(ps) => {
                        t.push_str("default");
                        t.push_str(&self.paths(ps));
                        t.push_str(&self.osp());
                        t.push('\n');
                        self.line += 1;
                    }
                    Stmt::Include(ci) | Stmt::Subninja(ci) => {
                        let kw = if matches!(st, Stmt::Include(_)) { "include" } else { "subninja" };
                        t.push_str(&format!("{} {}\n", kw, esc_lit(&m.files[*ci].name, true, false)));
                        self.line += 1;
                    }
                    Stmt::Build(b) => {
                        t.push_str("build");
                        // the statement's location is the line on which its first path starts
                        lines.insert((fi, si), self.line);
                        let first = self.path(&b.outs[0]);
                        t.push(' ');
                        t.push_str(&first);
                        let rest = self.paths(&b.outs[1..b.nexp_outs.max(1)]);
                        t.push_str(&rest);
                        if b.outs.len() > b.nexp_outs.max(1) {
                            t.push_str(&self.osp_or_sp());
                            t.push('|');
                            let imp = self.paths(&b.outs[b.nexp_outs.max(1)..]);
                            t.push_str(&imp);
                        }
                        t.push_str(&self.osp());
                        t.push(':');
                        t.push_str(&self.osp_or_sp());
                        t.push_str(&b.rule);
                        let seps = ["", "|", "||", "|@"];
                        let mut prev_empty = false;
                        for (k, sec) in b.ins.iter().enumerate() {
                            if sec.is_empty() {
                                if k > 0 {
                                    prev_empty = true;
                                } else {
                                    prev_empty = true;
                                }
                                continue;
                            }
                            if k > 0 {
                                if prev_empty {
                                    self.features.push("section-after-empty-section");
                                }
                                t.push_str(&self.osp_or_sp());
                                t.push_str(seps[k]);
                            }
                            let s = self.paths(sec);
                            t.push_str(&s);
                            prev_empty = false;
                        }
                        t.push_str(&self.osp());
                        t.push('\n');
                        self.line += 1;
                        t.push_str(&self.binds(&b.binds));
                    }
                }
            }
            files.insert(f.name.clone(), t);
        }
        Rendered { files, lines, features: std::mem::take(&mut self.features) }
    }

    fn osp_or_sp(&mut self) -> String {
        if self.variation == 0 {
            " ".into()
        } else if self.t.chance(25) {
            String::new()
        } else {
            self.sp()
        }
    }
}
