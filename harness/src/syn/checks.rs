//! Checks served by the `syn` engine: C10 (syntax -> graph), C11 (scoping), C14 (duplicate outputs).

use super::ast::*;
use super::gen::*;
use crate::engine::*;
use crate::tape::{fnv_str, Case, Tape};
use crate::util;
use n2::verif::{Dump, Exec, Finish, Observer, Outcome, StepInfo};
use serde_json::{json, Value};
use std::cell::RefCell;
use std::collections::BTreeMap;
use std::rc::Rc;

fn write_files(files: &BTreeMap<String, String>) {
    for (name, text) in files {
        if let Some(p) = std::path::Path::new(name).parent() {
            if !p.as_os_str().is_empty() {
                std::fs::create_dir_all(p).unwrap();
            }
        }
        std::fs::write(name, text).unwrap();
    }
}

pub fn load(manifest: &str) -> Result<Result<Dump, String>, (String, String)> {
    let _ = util::take_panic();
    n2::verif::set_scan_budget(Some(4_000_000));
    let r = std::panic::catch_unwind(|| n2::verif::load_dump(manifest));
    n2::verif::set_scan_budget(None);
    r.map_err(|_| util::take_panic().unwrap_or(("<panic>".into(), String::new())))
}

/// Field-by-field comparison of the expected graph with what n2 loaded.
pub fn compare(x: &XDump, d: &Dump, check_lines: bool) -> Vec<String> {
    let mut diff = vec![];
    if x.steps.len() != d.steps.len() {
        diff.push(format!("{} build statements declared, {} loaded", x.steps.len(), d.steps.len()));
        return diff;
    }
    let names_eq = |a: &[String], b: &[String]| a.len() == b.len() && a.iter().zip(b).all(|(e, g)| same_name(e, g));
    for (i, (e, g)) in x.steps.iter().zip(&d.steps).enumerate() {
        let mut f = |what: &str, e: String, g: String| diff.push(format!("statement #{} ({}:{}): {} expected {} got {}", i, x.steps[i].file, x.steps[i].line, what, e, g));
        if !names_eq(&e.outs, &g.outs) {
            f("outputs", format!("{:?}", e.outs), format!("{:?}", g.outs));
        }
        if e.nexp_outs != g.explicit_outs {
            f("explicit output count", e.nexp_outs.to_string(), g.explicit_outs.to_string());
        }
        if !names_eq(&e.ins, &g.ins) {
            f("inputs", format!("{:?}", e.ins), format!("{:?}", g.ins));
        }
        if e.counts != (g.explicit_ins, g.implicit_ins, g.order_only_ins) {
            f("input section counts (explicit, implicit, order-only)", format!("{:?}", e.counts), format!("{:?}", (g.explicit_ins, g.implicit_ins, g.order_only_ins)));
        }
        let loc = format!("{}:{}", e.file, e.line);
        if check_lines && loc != g.location {
            f("location", loc, g.location.clone());
        } else if !g.location.starts_with(&format!("{}:", e.file)) {
            f("file", e.file.clone(), g.location.clone());
        }
        if !e.wild {
            if e.cmdline != g.cmdline {
                f("command", format!("{:?}", e.cmdline), format!("{:?}", g.cmdline));
            }
            if e.desc != g.desc {
                f("description", format!("{:?}", e.desc), format!("{:?}", g.desc));
            }
            if e.depfile != g.depfile {
                f("depfile", format!("{:?}", e.depfile), format!("{:?}", g.depfile));
            }
            if e.rspfile != g.rspfile {
                f("rspfile", format!("{:?}", e.rspfile), format!("{:?}", g.rspfile));
            }
            if e.pool != g.pool {
                f("pool", format!("{:?}", e.pool), format!("{:?}", g.pool));
            }
        }
        if e.showincludes != g.showincludes {
            f("deps", e.showincludes.to_string(), g.showincludes.to_string());
        }
        if e.hide_success != g.hide_success || e.hide_progress != g.hide_progress {
            f("hide flags", format!("{:?}", (e.hide_success, e.hide_progress)), format!("{:?}", (g.hide_success, g.hide_progress)));
        }
    }
    if !names_eq(&x.defaults, &d.defaults) {
        diff.push(format!("defaults expected {:?} got {:?}", x.defaults, d.defaults));
    }
    if x.builddir != d.builddir {
        diff.push(format!("builddir expected {:?} got {:?}", x.builddir, d.builddir));
    }
    if x.pools != d.pools {
        diff.push(format!("pools expected {:?} got {:?}", x.pools, d.pools));
    }
    // C13 (b): names that denote one location are one node, i.e. one string
    let mut all: Vec<&String> = d.steps.iter().flat_map(|s| s.outs.iter().chain(&s.ins)).chain(&d.defaults).collect();
    all.sort();
    all.dedup();
    for (i, a) in all.iter().enumerate() {
        for b in &all[i + 1..] {
            let comparable = (crate::paths::is_tame(a) && crate::paths::is_tame(b)) || (crate::paths::is_tame_dir(a) && crate::paths::is_tame_dir(b));
            if comparable && crate::paths::node_key(a) == crate::paths::node_key(b) {
                diff.push(format!("{:?} and {:?} denote the same location but are two graph nodes", a, b));
            }
        }
    }
    diff
}

pub struct SynCheck {
    pub id: &'static str,
    pub opts: SynOpts,
    pub quick: u64,
    pub thorough: u64,
}

pub fn syn_check(id: &str) -> Option<SynCheck> {
    Some(match id {
        "C10" => SynCheck { id: "C10", opts: SynOpts { vars_heavy: false, children: true, respell_pct: 8, special_chars_pct: 12 }, quick: 300_000, thorough: 3_000_000 },
        "C11" => SynCheck { id: "C11", opts: SynOpts { vars_heavy: true, children: true, respell_pct: 2, special_chars_pct: 5 }, quick: 300_000, thorough: 3_000_000 },
        "C14" => SynCheck { id: "C14", opts: SynOpts { vars_heavy: false, children: true, respell_pct: 5, special_chars_pct: 5 }, quick: 250_000, thorough: 2_500_000 },
        _ => return None,
    })
}

impl SynCheck {
    /// C10/C11: k spellings of one abstract manifest; each must load into the graph the reference evaluator computes.
    fn run_syntax(&mut self, case: &Case, env: &mut Env) -> CaseOut {
        util::fresh_cwd(&env.dir.join("m"));
        let mut mt = Tape::new(&case.main);
        let mut g = Gen { t: &mut mt, o: self.opts.clone(), counter: 0, rules: vec![], rule_refs: vec![], features: vec![] };
        let m = g.manifest();
        let mut features: Vec<&'static str> = std::mem::take(&mut g.features);
        let mut out = CaseOut { evals: 0, ..Default::default() };
        let empty: Vec<u16> = vec![];
        let mut first_dump: Option<String> = None;
        let mut sample_text = String::new();
        let nb = m.files.iter().flat_map(|f| &f.stmts).filter(|s| matches!(s, Stmt::Build(_))).count();
        for k in 0..4 {
            let mut rt = Tape::new(if k == 0 { &empty } else { case.ops.get(k - 1).unwrap_or(&empty) });
            let mut r = Renderer { t: &mut rt, variation: k, features: vec![], line: 1 };
            let rendered = r.manifest(&m);
            features.extend(rendered.features.iter().copied());
            let (expect, ext, _warn) = Evaluator::run(&m, &rendered.lines);
            if ext {
                // finding F9 (include does not extend the including scope): excluded by construction, counted
                out.excluded_known += 1;
                out.evals += 1;
                out.classes.push("excluded:include-defines-var-read-by-parent".into());
                return out;
            }
            // stale files of the previous spelling must not linger
            for f in &m.files {
                let _ = std::fs::remove_file(&f.name);
            }
            write_files(&rendered.files);
            out.evals += 1;
            if k == 1 {
                sample_text = rendered.files["build.ninja"].clone();
            }
            let res = load("build.ninja");
            let mut problems: Vec<(String, String)> = vec![];
            match (&expect, res) {
                (_, Err((msg, file))) => problems.push((util::panic_key(&msg, &file), format!("loading panicked: {}", msg))),
                (Ok(x), Ok(Ok(d))) => {
                    let diff = compare(x, &d, true);
                    if let Some(d0) = diff.first() {
                        let key = d0.split(": ").nth(1).unwrap_or(d0).split(" expected").next().unwrap_or("diff").replace(' ', "-");
                        problems.push((format!("graph-differs:{}", key), format!("{} (and {} more differences)", d0, diff.len() - 1)));
                    }
                    // metamorphic: all spellings load into the same graph (ignoring line numbers)
                    let canon_dump = format!("{:?}", d.steps.iter().map(|s| (&s.outs, s.explicit_outs, &s.ins, s.explicit_ins, s.implicit_ins, s.order_only_ins, &s.cmdline, &s.desc, &s.depfile, &s.rspfile, &s.pool, s.showincludes)).collect::<Vec<_>>());
                    match &first_dump {
                        None => first_dump = Some(canon_dump),
                        Some(f) if *f != canon_dump => problems.push(("spelling-changes-graph".into(), format!("spelling #{} of the same manifest loads into a different graph than the plain spelling", k))),
                        _ => {}
                    }
                }
                (Ok(_), Ok(Err(e))) => problems.push((format!("rejected:{}", e.lines().next().unwrap_or("").split(':').next().unwrap_or("").replace(' ', "-")), format!("a valid manifest was rejected: {}", e))),
                (Err(xe), Ok(Ok(_))) => problems.push(("error-expected".into(), format!("expected the manifest to be rejected ({:?}) but it loaded", xe))),
                (Err(_), Ok(Err(_))) => {}
            }
            for (key, msg) in problems {
                for p in ["C10", "C11"] {
                    out.viols.push(Viol::new(p, key.clone(), format!("{} [spelling #{}]", msg, k)));
                }
                out.desc = json!({"files": rendered.files, "ast": &m});
            }
            if !out.viols.is_empty() {
                return out;
            }
        }
        features.sort();
        features.dedup();
        let shadow = has_shadowing(&m);
        out.nontrivial = match self.id {
            "C11" => shadow,
            _ => features.iter().any(|f| ["section-after-empty-section", "continuation-between-tokens", "continuation-inside-value", "escaped-path"].contains(f)) && nb > 0,
        };
        out.classes = features.iter().map(|s| s.to_string()).collect();
        if shadow {
            out.classes.push("shadowing".into());
        }
        out.fp = fnv_str(&format!("{:?}", serde_json::to_string(&m).unwrap()));
        out.desc = json!({"one_spelling_of_build.ninja": sample_text, "files": m.files.len()});
        out
    }

    /// C14: duplicates injected into a generated manifest.
    fn run_dups(&mut self, case: &Case, env: &mut Env) -> CaseOut {
        util::fresh_cwd(&env.dir.join("m"));
        let mut mt = Tape::new(&case.main);
        let mut g = Gen { t: &mut mt, o: self.opts.clone(), counter: 0, rules: vec![], rule_refs: vec![], features: vec![] };
        let mut m = g.manifest();
        let mut out = CaseOut { evals: 1, ..Default::default() };
        // strip pool bindings (an undeclared pool would fail the run part for an unrelated reason)
        for f in m.files.iter_mut() {
            for s in f.stmts.iter_mut() {
                match s {
                    Stmt::Rule(_, b) => b.retain(|(k, _)| k != "pool"),
                    Stmt::Build(b) => b.binds.retain(|(k, _)| k != "pool"),
                    _ => {}
                }
            }
        }
        let empty: Vec<u16> = vec![];
        let mut t = Tape::new(case.ops.first().unwrap_or(&empty));
        // positions of build statements
        let mut builds: Vec<(usize, usize)> = vec![];
        for (fi, f) in m.files.iter().enumerate() {
            for (si, s) in f.stmts.iter().enumerate() {
                if matches!(s, Stmt::Build(_)) {
                    builds.push((fi, si));
                }
            }
        }
        if builds.is_empty() {
            out.classes.push("no-build-statement".into());
            return out;
        }
        let mut injected = vec![];
        let mut classes: Vec<String> = vec![];
        let ninj = 1 + t.below(2);
        for _ in 0..ninj {
            let (sf, ss) = builds[t.below(builds.len())];
            let Stmt::Build(src) = m.files[sf].stmts[ss].clone() else { continue };
            let mut dup = src.outs[t.below(src.outs.len())].clone();
            let literal = dup.val.iter().all(|p| matches!(p, Piece::Lit(_)));
            if t.chance(40) && literal {
                dup.respell = Some(t.below(3) as u8);
                classes.push("dup-spelled-differently".into());
            }
            let mut dirform = None;
            if t.chance(12) && literal && dup.respell.is_none() {
                // the duplicated output in directory form: `name/`, `name/.`, `name/zz/..` are one file
                let a = t.below(3) as u8;
                dirform = Some((a, (a + 1 + t.below(2) as u8) % 3));
                classes.push("dup-directory-form".into());
            }
            let across = builds.len() > 1 && t.chance(50);
            let (tf, ts) = if across {
                let mut k = t.below(builds.len());
                if builds[k] == (sf, ss) {
                    k = (k + 1) % builds.len();
                }
                builds[k]
            } else {
                (sf, ss)
            };
            let mult = 1 + t.weighted(&[5, 3, 2]);
            if let Some((a, b)) = dirform {
                // both occurrences are written in directory form, with different spellings
                let oi = if let Stmt::Build(s) = &m.files[sf].stmts[ss] { s.outs.iter().position(|o| o.val == dup.val) } else { None };
                if let (Some(oi), Stmt::Build(s)) = (oi, &mut m.files[sf].stmts[ss]) {
                    s.outs[oi].dir_suffix = Some(a);
                    s.outs[oi].respell = None;
                }
                dup.dir_suffix = Some(b);
            }
            if let Stmt::Build(dst) = &mut m.files[tf].stmts[ts] {
                for _ in 0..mult {
                    let pos = t.below(dst.outs.len() + 1);
                    if pos <= dst.nexp_outs && t.chance(60) {
                        dst.outs.insert(pos.min(dst.nexp_outs), dup.clone());
                        dst.nexp_outs += 1;
                    } else {
                        let p = pos.max(dst.nexp_outs);
                        dst.outs.insert(p, dup.clone());
                    }
                }
                injected.push(json!({"from": [sf, ss], "into": [tf, ts], "times": mult, "across_statements": across}));
                if !across && mult >= 2 {
                    classes.push("multiplicity>=3".into());
                }
                if across {
                    classes.push("across-statements".into());
                } else {
                    classes.push("within-statement".into());
                }
            }
        }
        let mut rt = Tape::new(case.ops.get(1).unwrap_or(&empty));
        let mut r = Renderer { t: &mut rt, variation: 1, features: vec![], line: 1 };
        let rendered = r.manifest(&m);
        let (expect, ext, warn_names) = Evaluator::run(&m, &rendered.lines);
        if ext {
            out.excluded_known += 1;
            out.classes.push("excluded:include-defines-var-read-by-parent".into());
            return out;
        }
        write_files(&rendered.files);
        let _ = util::take_stdout();
        let res = load("build.ninja");
        let stdout = util::take_stdout();
        let desc = json!({"files": rendered.files, "injected": injected});
        let mut v = |key: &str, msg: String| out.viols.push(Viol::new("C14", key, msg));
        match (&expect, res) {
            (_, Err((msg, file))) => v(&util::panic_key(&msg, &file), format!("loading panicked: {}", msg)),
            (Err(XErr::DupOutput(name, l1, l2)), Ok(Err(e))) => {
                if !(e.contains(l1.as_str()) && e.contains(l2.as_str())) {
                    v("error-lacks-locations", format!("two statements ({} and {}) produce {:?}; the error does not cite both: {:?}", l1, l2, name, e));
                }
                let shown = crate::paths::resolve(name).names.last().cloned().unwrap_or_default();
                if !e.contains(&shown) {
                    v("error-lacks-name", format!("the error does not name the duplicated output {:?}: {:?}", name, e));
                }
            }
            (Err(XErr::DupOutput(name, l1, l2)), Ok(Ok(_))) => v("duplicate-producer-accepted", format!("{:?} is an output of the statements at {} and {} but the manifest was accepted", name, l1, l2)),
            (Err(_), _) => {}
            (Ok(_), Ok(Err(e))) => v("valid-rejected", format!("a manifest whose only oddity is an output repeated inside one statement was rejected: {}", e)),
            (Ok(x), Ok(Ok(d))) => {
                let diff = compare(x, &d, true);
                if let Some(d0) = diff.first() {
                    let key = if d0.contains("explicit output count") { "explicit-count-after-dedup" } else { "graph-differs" };
                    v(key, format!("{} (and {} more differences)", d0, diff.len() - 1));
                }
                for w in &warn_names {
                    let shown = crate::paths::resolve(w).names.last().cloned().unwrap_or_default();
                    if !stdout.lines().any(|l| l.contains("is repeated in output list") && l.contains(&shown)) {
                        v("no-warning", format!("no `is repeated in output list` warning for {:?}; stdout: {:?}", w, stdout));
                        break;
                    }
                }
            }
        }
        // run part: an accepted manifest builds (each output recorded once), a rejected one runs nothing
        if out.viols.is_empty() {
            let mut v = |key: &str, msg: String| out.viols.push(Viol::new("C14", key, msg));
            let rejected = expect.is_err();
            let st = Rc::new(RefCell::new(RunState::default()));
            // create the source files
            if let Ok(x) = &expect {
                let produced: Vec<&String> = x.steps.iter().flat_map(|s| s.outs.iter()).collect();
                for s in &x.steps {
                    for i in s.ins.iter().take(s.counts.0 + s.counts.1) {
                        if !produced.iter().any(|p| same_name(p, i)) {
                            let p = std::path::Path::new(i);
                            if i.starts_with('/') || i.starts_with("..") {
                                st.borrow_mut().skip = true;
                            } else {
                                if let Some(par) = p.parent() {
                                    if !par.as_os_str().is_empty() {
                                        let _ = std::fs::create_dir_all(par);
                                    }
                                }
                                if std::fs::write(p, "src").is_err() {
                                    st.borrow_mut().skip = true;
                                }
                            }
                        }
                    }
                    if s.outs.iter().any(|o| o.starts_with('/') || o.starts_with("..") || o.ends_with('/')) {
                        st.borrow_mut().skip = true;
                    }
                }
            }
            if !st.borrow().skip {
                for round in 0..2 {
                    n2::verif::set_exec(Some(Box::new(TouchExec(st.clone()))));
                    n2::verif::set_observer(Some(Box::new(RecObs(st.clone()))));
                    let _ = util::take_panic();
                    let r = std::panic::catch_unwind(|| n2::verif::run_cli(vec!["-j".into(), "2".into()]));
                    n2::verif::set_exec(None);
                    n2::verif::set_observer(None);
                    let _ = util::take_stdout();
                    out.evals += 1;
                    let started = st.borrow().started;
                    match r {
                        Err(_) => {
                            let (m, f) = util::take_panic().unwrap_or_default();
                            v(&util::panic_key(&m, &f), format!("n2 panicked while building: {}", m));
                            break;
                        }
                        Ok(Err(e)) => {
                            if rejected {
                                if started > 0 {
                                    v("ran-despite-duplicate", format!("{} commands were started although the manifest has a duplicate producer", started));
                                }
                            } else if e.contains("dependency cycle") || e.contains("missing") || e.contains("is a directory") || e.contains("Is a directory") || e.contains("Not a directory") {
                                classes.push("run-skipped-unrelated-error".into());
                            } else {
                                v("build-error", format!("an accepted manifest failed to build: {}", e));
                            }
                            break;
                        }
                        Ok(Ok(code)) => {
                            if rejected {
                                v("exit-despite-duplicate", format!("n2 exited {} although two statements produce the same file", code));
                                break;
                            }
                            if code != 0 {
                                classes.push("run-skipped-build-failed".into());
                                break;
                            }
                            for rec in &st.borrow().records {
                                let mut s = rec.clone();
                                s.sort();
                                s.dedup();
                                if s.len() != rec.len() {
                                    v("record-repeats-output", format!("the log record for {:?} names an output twice", rec));
                                }
                            }
                            if round == 0 {
                                classes.push("built".into());
                            }
                        }
                    }
                }
            }
        }
        classes.sort();
        classes.dedup();
        out.nontrivial = classes.iter().any(|c| c == "multiplicity>=3" || c == "dup-spelled-differently" || c == "across-statements" || c == "dup-directory-form");
        out.fp = fnv_str(&format!("{:?}", rendered.files));
        out.classes = classes;
        out.desc = desc;
        out
    }
}

#[derive(Default)]
struct RunState {
    running: Vec<StepInfo>,
    started: usize,
    records: Vec<Vec<String>>,
    tick: u64,
    skip: bool,
}
struct TouchExec(Rc<RefCell<RunState>>);
impl Exec for TouchExec {
    fn start(&mut self, step: &StepInfo) {
        let mut s = self.0.borrow_mut();
        s.started += 1;
        s.running.push(step.clone());
    }
    fn finish(&mut self, _running: usize) -> Finish {
        let mut s = self.0.borrow_mut();
        if s.running.is_empty() {
            drop(s);
            panic!("DEADLOCK: n2 waits while nothing runs");
        }
        let st = s.running.remove(0);
        let mut ok = true;
        for o in &st.outs {
            s.tick += 1;
            if let Some(p) = std::path::Path::new(o).parent() {
                if !p.as_os_str().is_empty() {
                    let _ = std::fs::create_dir_all(p);
                }
            }
            if std::fs::write(o, format!("out {}", s.tick)).is_err() {
                ok = false;
            } else {
                util::set_mtime(o, std::time::UNIX_EPOCH + std::time::Duration::from_millis(1_600_000_000_000 + s.tick * 1001));
            }
        }
        Finish { id: st.id, outcome: if ok { Outcome::Success } else { Outcome::Failure }, output: vec![], last_lines: vec![], discovered: if st.depfile.is_some() || st.showincludes { Some(vec![]) } else { None } }
    }
}
struct RecObs(Rc<RefCell<RunState>>);
impl Observer for RecObs {
    fn db_write(&mut self, outs: &[String], _deps: &[String], _hash: u64) {
        self.0.borrow_mut().records.push(outs.to_vec());
    }
}

impl Check for SynCheck {
    fn id(&self) -> &'static str {
        self.id
    }
    fn rule(&self) -> String {
        match self.id {
            "C10" => "abstract manifests (rules, builds with all six path sections, bindings, defaults, pools, comments, include/subninja trees, paths needing $-escapes, UTF-8) rendered in 4 spellings (spacing, $-newline continuations between tokens and inside values, $x vs ${x}, blank/comment lines, indentation); oracle: n2's loaded graph equals, field by field, what an independent evaluator computes from the AST, and all spellings load into the same graph. Non-trivial: a build statement with a section following an empty one, a continuation, or an escaped path; distinct by AST".into(),
            "C11" => "abstract manifests whose file-, rule- and build-level bindings draw names from a pool of 4 and reference each other in every direction, with include/subninja children; oracle: reference evaluator of Ninja's scoping rules, compared on command, description, depfile, rspfile, pool and all paths. Non-trivial: a referenced variable is bound at two levels or re-bound later; distinct by AST".into(),
            _ => "generated manifests with duplicate outputs injected (across two statements or inside one, explicit/implicit position, multiplicity 2-4, other spellings, across included files); oracle: across statements => rejected with an error citing both locations and the name, nothing runs; inside one statement => accepted with a warning, listed once with the explicit count of distinct names, the build succeeds and the log names each output once. Non-trivial: multiplicity >= 3, another spelling, or across statements".into(),
        }
    }
    fn assumptions(&self) -> Vec<String> {
        vec![
            "only syntax n2 documents is rendered (final newline, no tabs/CR, comments and blank lines only between statements)".into(),
            "cases in which an included file defines a variable that the including file reads afterwards are excluded and counted (listed finding F9)".into(),
            "texts built from $in/$out are compared only when all explicit paths are relative and do not climb above the start (their canonical spelling is then unambiguous); names are compared by location otherwise".into(),
        ]
    }
    fn parts(&self, tier: Tier) -> Vec<Part> {
        let cases = tier.pick(self.quick, self.thorough);
        match self.id {
            "C14" => vec![Part { name: "dups", kind: PartKind::Random { cases, main: 140, ops: 2, oplen: 60, sched: 0 } }],
            _ => vec![Part { name: "syntax", kind: PartKind::Random { cases, main: 160, ops: 3, oplen: 120, sched: 0 } }],
        }
    }
    fn run_random(&mut self, part: &str, case: &Case, env: &mut Env) -> CaseOut {
        let mut out = match part {
            "dups" => self.run_dups(case, env),
            _ => self.run_syntax(case, env),
        };
        let _ = std::env::set_current_dir("/");
        // a problem seen by the syntax part concerns both C10 and C11; keep only this check's tag first
        out.viols.sort_by_key(|v| v.prop != self.id);
        out
    }
    fn run_replay(&mut self, part: &str, replay: &Value, env: &mut Env) -> CaseOut {
        // {"files": {name: text}, "expect": "loads" | "rejected"}: a hand-written manifest
        util::fresh_cwd(&env.dir.join("m"));
        let mut out = CaseOut { evals: 1, ..Default::default() };
        if let Some(files) = replay["files"].as_object() {
            for (n, t) in files {
                write_files(&BTreeMap::from([(n.clone(), t.as_str().unwrap_or("").to_string())]));
            }
        }
        let res = load("build.ninja");
        let _ = part;
        let want = replay["expect_dump_contains"].as_str().unwrap_or("");
        match res {
            Ok(Ok(d)) => {
                let text = format!("{:?}", d);
                if !want.is_empty() && !text.contains(want) {
                    out.viols.push(Viol::new(self.id, replay["key"].as_str().unwrap_or("pinned"), format!("{}: loaded graph lacks {:?}: {}", replay["what"].as_str().unwrap_or(""), want, text)));
                }
            }
            Ok(Err(e)) => out.viols.push(Viol::new(self.id, "pinned-rejected", format!("pinned manifest rejected: {}", e))),
            Err((m, f)) => out.viols.push(Viol::new(self.id, util::panic_key(&m, &f), format!("pinned manifest panics: {}", m))),
        }
        let _ = std::env::set_current_dir("/");
        out
    }
    fn pinned(&self) -> Vec<(String, &'static str, Value)> {
        match self.id {
            "C11" => vec![(
                "include-scope-not-extended".into(),
                "syntax",
                json!({"key": "include-scope-not-extended", "what": "an included file sets x, the including file uses $x afterwards (Ninja: shared scope)",
                       "files": {"build.ninja": "x = parent\ninclude inc.ninja\nrule r\n  command = c\nbuild out_$x: r\n", "inc.ninja": "x = child\n"},
                       "expect_dump_contains": "out_child"}),
            )],
            _ => vec![],
        }
    }
}
