//! n2check: property-based checks of evmar/n2 (see /verif/DESIGN.md).
mod bb;
mod engine;
mod paths;
mod sim;
mod syn;
mod tot;
mod tape;
mod util;

use engine::*;
use std::path::PathBuf;

fn make_check(id: &str) -> Option<Box<dyn Check>> {
    if let Some(c) = sim::props::sim_check(id) {
        return Some(Box::new(c));
    }
    if let Some(c) = syn::checks::syn_check(id) {
        return Some(Box::new(c));
    }
    match id {
        "C16" => return Some(Box::new(bb::c16::C16)),
        "C12" => return Some(Box::new(tot::c12::C12 { dir_ready: false })),
        "C13" => return Some(Box::new(tot::c13::C13)),
        "C15" => return Some(Box::new(tot::c15::C15)),
        "C20" => return Some(Box::new(tot::c20::C20)),
        _ => {}
    }
    if id == "C07" {
        return Some(Box::new(sim::crash::CrashCheck::new()));
    }
    None
}

fn usage() -> ! {
    eprintln!("usage: n2check run <id> <quick|thorough> | replay <id> <file> | worker ... | list");
    std::process::exit(2)
}

/// Signal dispositions are inherited: under `nohup`, or as a background job of a non-interactive shell, SIGHUP /
/// SIGINT / SIGQUIT arrive here ignored, and every command n2 spawns for us would ignore them too (a command
/// that kills its shell with such a signal would then simply carry on).  The black-box parts need the defaults.
fn reset_signals() {
    unsafe {
        for s in [libc::SIGHUP, libc::SIGINT, libc::SIGQUIT, libc::SIGTERM, libc::SIGUSR1, libc::SIGUSR2] {
            libc::signal(s, libc::SIG_DFL);
        }
    }
}

fn main() {
    let args: Vec<String> = std::env::args().collect();
    if args.len() >= 2 && ["worker", "replay"].contains(&args[1].as_str()) {
        reset_signals();
    }
    if args.len() < 2 {
        usage();
    }
    match args[1].as_str() {
        "parts" => {
            // parts: one markdown table row per check part (used to keep DESIGN.md in step with the code)
            for n in 1..=20 {
                let id = format!("C{:02}", n);
                if let Some(c) = make_check(&id) {
                    let q = c.parts(Tier::Quick);
                    let t = c.parts(Tier::Thorough);
                    for (pq, pt) in q.iter().zip(t.iter()) {
                        let show = |k: &PartKind| match k {
                            PartKind::Random { cases, .. } => format!("{} generated cases", cases),
                            PartKind::Enum { units } => format!("{} enumeration units", units),
                        };
                        println!("| {} | {} | {} | {} |", id, pq.name, show(&pq.kind), show(&pt.kind));
                    }
                }
            }
        }
        "render" => {
            // render <replay file> <check id> <style>: print the manifest files of the project a replay file decodes to
            let v: serde_json::Value = serde_json::from_str(&std::fs::read_to_string(&args[2]).unwrap()).unwrap();
            let case: tape::Case = serde_json::from_value(v["replay"].clone()).unwrap();
            let c = sim::props::sim_check(&args[3]).unwrap();
            let mut t = tape::Tape::new(&case.main);
            let mut p = sim::model::Proj::gen(&mut t, &c.prof.gen);
            p.style = args[4].parse().unwrap();
            for (n, text) in p.render() {
                println!("=== {}\n{}", n, text);
            }
        }
        "agent" => bb::agent::main(&args[2..]),
        "step" => bb::incr::step_main(&args[2..]),
        "corpus" => {
            // corpus <dir> <n>: write seed inputs for the fuzz targets (generated valid manifests, depfiles, paths)
            let dir = PathBuf::from(&args[2]);
            let n: usize = args.get(3).and_then(|s| s.parse().ok()).unwrap_or(40);
            for t in ["load", "depfile", "canon"] {
                std::fs::create_dir_all(dir.join(t)).unwrap();
            }
            let mut x: u64 = 0x1234_5678_9abc_def1;
            let mut tape = |len: usize| -> Vec<u16> {
                (0..len)
                    .map(|_| {
                        x ^= x << 13;
                        x ^= x >> 7;
                        x ^= x << 17;
                        (x >> 20) as u16
                    })
                    .collect()
            };
            for i in 0..n {
                let main = tape(160);
                let sp = tape(120);
                let mut mt = tape::Tape::new(&main);
                let mut g = syn::gen::Gen { t: &mut mt, o: syn::gen::SynOpts { vars_heavy: i % 2 == 0, children: false, respell_pct: 5, special_chars_pct: 15 }, counter: 0, rules: vec![], rule_refs: vec![], features: vec![] };
                let m = g.manifest();
                let mut rt = tape::Tape::new(&sp);
                let mut r = syn::ast::Renderer { t: &mut rt, variation: 1 + i % 3, features: vec![], line: 1 };
                let text = r.manifest(&m).files["build.ninja"].clone();
                std::fs::write(dir.join("load").join(format!("gen{:03}.ninja", i)), text).unwrap();
            }
            let deps = ["a.o: b.h c.h\n", "build/x.o: src/x.cc \\\n  src/x.h\n\nother.o: y.h", "C:/out.obj: C:/inc/w.h dir\\win.h\n", "a: b\na: c\n", "t :\n", "\u{e9}.o: \u{20ac}.h  \n"];
            for (i, d) in deps.iter().enumerate() {
                std::fs::write(dir.join("depfile").join(format!("d{}.d", i)), d).unwrap();
            }
            let paths = ["a/b/../c", "./x", "../../up/./f", "/root//x/", "a\\b\\..\\c", "...", ".", "d/d/d/d/d/d/d/d/d/d/f", "\u{e9}/./\u{20ac}/../z"];
            for (i, p) in paths.iter().enumerate() {
                std::fs::write(dir.join("canon").join(format!("p{}", i)), p).unwrap();
            }
        }
        "run" => {
            let id = args.get(2).cloned().unwrap_or_else(|| usage());
            let tier = match args.get(3).map(|s| s.as_str()).or(std::env::var("VERIF_TIER").ok().as_deref()) {
                Some("thorough") => Tier::Thorough,
                _ => Tier::Quick,
            };
            let seed: u64 = std::env::var("VERIF_SEED").ok().and_then(|s| s.trim().parse::<i64>().ok()).map(|x| x as u64).unwrap_or(0);
            let Some(mut check) = make_check(&id) else {
                eprintln!("n2check: no check for {}", id);
                std::process::exit(2);
            };
            std::process::exit(orchestrate(check.as_mut(), tier, seed));
        }
        "worker" => {
            // worker <id> <tier> <seed> <idx> <n> <outdir>
            let id = &args[2];
            let tier = if args[3] == "thorough" { Tier::Thorough } else { Tier::Quick };
            let seed: u64 = args[4].parse().unwrap();
            let idx: u64 = args[5].parse().unwrap();
            let n: u64 = args[6].parse().unwrap();
            let outdir = PathBuf::from(&args[7]);
            let mut check = make_check(id).unwrap();
            util::install_panic_hook();
            let base = scratch_base();
            std::fs::create_dir_all(&base).unwrap();
            util::capture_stdout(&base);
            let res = run_worker(check.as_mut(), tier, seed, idx, n, &outdir);
            std::fs::write(outdir.join(format!("w{}.json", idx)), serde_json::to_vec(&res).unwrap()).unwrap();
        }
        "replay" => {
            let id = args.get(2).cloned().unwrap_or_else(|| usage());
            let path = PathBuf::from(args.get(3).cloned().unwrap_or_else(|| usage()));
            let Some(mut check) = make_check(&id) else {
                eprintln!("n2check: no check for {}", id);
                std::process::exit(2);
            };
            util::install_panic_hook();
            if std::env::var("N2CHECK_RUN").is_err() {
                std::env::set_var("N2CHECK_RUN", format!("{}", std::process::id()));
            }
            let base = scratch_base();
            std::fs::create_dir_all(&base).unwrap();
            // keep our own stdout for the verdict: n2's prints go to a capture file
            let saved = unsafe { libc::dup(1) };
            util::capture_stdout(&base);
            let code = {
                // run_replay_file prints with println!, which goes to fd 1: collect and re-emit
                let code = run_replay_file(check.as_mut(), &path);
                let text = util::take_stdout();
                unsafe {
                    libc::dup2(saved, 1);
                }
                print!("{}", text);
                code
            };
            std::process::exit(code);
        }
        _ => usage(),
    }
}
