//! Choice tapes: every generated case is a few `Vec<u16>` produced (and shrunk)
//! by proptest; generators are interpreters that draw choices from a tape.
//! Draws past the end yield 0, and 0 always selects the simplest alternative,
//! so deleting elements or lowering values (proptest's shrinking of
//! `vec(any::<u16>())`) yields simpler cases.

use serde::{Deserialize, Serialize};

#[derive(Clone, Debug, Default, Serialize, Deserialize, PartialEq)]
pub struct Case {
    /// Choices that shape the static part of the case (project, manifest, input).
    pub main: Vec<u16>,
    /// One small tape per operation of a history.
    pub ops: Vec<Vec<u16>>,
    /// Choices consumed while n2 runs (completion order, outcomes).
    pub sched: Vec<u16>,
}

pub struct Tape<'a> {
    v: &'a [u16],
    pos: usize,
}

impl<'a> Tape<'a> {
    pub fn new(v: &'a [u16]) -> Self {
        Tape { v, pos: 0 }
    }
    pub fn raw(&mut self) -> u16 {
        let x = self.v.get(self.pos).copied().unwrap_or(0);
        self.pos += 1;
        x
    }
    /// Uniform in 0..n, monotone in the drawn value (0 -> 0).
    pub fn below(&mut self, n: usize) -> usize {
        if n <= 1 {
            self.raw();
            return 0;
        }
        ((self.raw() as u64 * n as u64) >> 16) as usize
    }
    /// lo..=hi
    pub fn range(&mut self, lo: usize, hi: usize) -> usize {
        lo + self.below(hi - lo + 1)
    }
    /// True with probability pct/100; false for small values (so 0 = "no").
    pub fn chance(&mut self, pct: usize) -> bool {
        let x = (self.raw() as u64 * 100) >> 16;
        x as usize >= 100 - pct.min(100)
    }
    /// Index chosen with the given weights; index 0 is the simplest.
    pub fn weighted(&mut self, w: &[usize]) -> usize {
        let total: usize = w.iter().sum();
        let mut x = self.below(total.max(1));
        for (i, &wi) in w.iter().enumerate() {
            if x < wi {
                return i;
            }
            x -= wi;
        }
        0
    }
    pub fn pick<'b, T>(&mut self, xs: &'b [T]) -> &'b T {
        &xs[self.below(xs.len())]
    }
    pub fn exhausted(&self) -> bool {
        self.pos >= self.v.len()
    }
}

/// Owned tape used while n2 is running (the executor holds it).
#[derive(Default)]
pub struct OwnedTape {
    v: Vec<u16>,
    pos: usize,
}
impl OwnedTape {
    pub fn new(v: Vec<u16>) -> Self {
        OwnedTape { v, pos: 0 }
    }
    pub fn raw(&mut self) -> u16 {
        let x = self.v.get(self.pos).copied().unwrap_or(0);
        self.pos += 1;
        x
    }
    pub fn below(&mut self, n: usize) -> usize {
        if n <= 1 {
            self.raw();
            return 0;
        }
        ((self.raw() as u64 * n as u64) >> 16) as usize
    }
    pub fn chance(&mut self, pct: usize) -> bool {
        let x = (self.raw() as u64 * 100) >> 16;
        x as usize >= 100 - pct.min(100)
    }
}

/// FNV-1a, used for fingerprints of canonicalised cases (stable across runs).
pub fn fnv(parts: &[&[u8]]) -> u64 {
    let mut h: u64 = 0xcbf29ce484222325;
    for p in parts {
        for &b in *p {
            h ^= b as u64;
            h = h.wrapping_mul(0x100000001b3);
        }
        h ^= 0xff;
        h = h.wrapping_mul(0x100000001b3);
    }
    h
}
pub fn fnv_str(s: &str) -> u64 {
    fnv(&[s.as_bytes()])
}
