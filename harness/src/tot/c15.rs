//! C15: depfiles.  (a) structured depfiles under all formattings, (b) totality over all short strings.

use super::*;
use crate::engine::*;
use crate::tape::{fnv_str, Case, Tape};
use serde_json::{json, Value};

const ALPHA: [u8; 5] = [b'a', b' ', b':', b'\\', b'\n'];

pub fn parse(bytes: &[u8]) -> Ran<Result<Vec<(String, Vec<String>)>, String>> {
    let b = bytes.to_vec();
    let budget = 64 * b.len() as u64 + 4096;
    guarded(budget, move || n2::verif::parse_depfile(&b, "x.d"))
}


/// Reference reading of a depfile, written from the Makefile-subset grammar of the property:
///   file  := (blank | entry)*          blank := spaces and newlines
///   entry := target ' '* ':' (ws+ prereq)* ws* (newline | EOF)      ws := ' ' | backslash-newline
///   target, prereq := maximal runs of characters other than space and newline, not starting with a backslash
///                     and ending before a backslash-newline; a target written `name:` carries its colon.
/// Returns None for anything outside this grammar (then only totality is required of n2).
pub fn reference_depfile(b: &[u8]) -> Option<Vec<(String, Vec<String>)>> {
    // CR and tab are outside what the property describes (n2 reads CRLF depfiles only when built with its
    // `crlf` feature): no opinion, totality only
    if b.iter().any(|&c| c == b'\r' || c == b'\t') {
        return None;
    }
    let mut i = 0;
    let n = b.len();
    let cont = |i: usize| i + 1 < n && b[i] == b'\\' && b[i + 1] == b'\n';
    let mut entries: Vec<(String, Vec<String>)> = vec![];
    // a token starting at i: (end, text); None if empty or starting with a stray backslash
    let token = |mut i: usize| -> Option<(usize, String)> {
        let start = i;
        if i < n && b[i] == b'\\' {
            return None;
        }
        while i < n && b[i] != b' ' && b[i] != b'\n' && b[i] != 0 && !cont(i) {
            i += 1;
        }
        if i == start {
            None
        } else {
            Some((i, String::from_utf8_lossy(&b[start..i]).into_owned()))
        }
    };
    loop {
        // blank space between entries
        loop {
            if i < n && (b[i] == b' ' || b[i] == b'\n') {
                i += 1;
            } else if cont(i) {
                // a continuation outside an entry: not something the grammar of the property covers
                return None;
            } else {
                break;
            }
        }
        if i >= n {
            break;
        }
        if b[i] == 0 {
            return None;
        }
        let (e, mut target) = token(i)?;
        i = e;
        if let Some(t) = target.strip_suffix(':') {
            target = t.to_string();
        } else {
            while i < n && b[i] == b' ' {
                i += 1;
            }
            if i < n && b[i] == b':' {
                i += 1;
            } else {
                return None;
            }
            // the colon must stand alone (followed by ws, newline or EOF): `a :b` reads as prerequisite `b`? keep to the clear case
            if i < n && b[i] != b' ' && b[i] != b'\n' && !cont(i) {
                return None;
            }
        }
        let mut deps = vec![];
        loop {
            let mut ws = 0;
            loop {
                if i < n && b[i] == b' ' {
                    i += 1;
                    ws += 1;
                } else if cont(i) {
                    i += 2;
                    ws += 1;
                } else {
                    break;
                }
            }
            if i >= n || b[i] == b'\n' {
                break;
            }
            if b[i] == 0 {
                return None;
            }
            if ws == 0 {
                return None;
            }
            let (e, t) = token(i)?;
            i = e;
            deps.push(t);
        }
        match entries.iter_mut().find(|x| x.0 == target) {
            Some(x) => x.1.extend(deps),
            None => entries.push((target, deps)),
        }
    }
    Some(entries)
}

pub fn totality_one(bytes: &[u8]) -> Result<bool, (String, String)> {
    match parse(bytes) {
        Ran::Panic(m, f) => Err((util::panic_key(&m, &f), format!("parsing depfile {:?} panicked: {}", String::from_utf8_lossy(bytes), m))),
        Ran::Done(Ok(got)) => {
            if let Some(want) = reference_depfile(bytes) {
                if got != want {
                    return Err(("differs-from-reference".into(), format!("depfile {:?}: read as {:?}, the grammar of the property gives {:?}", String::from_utf8_lossy(bytes), got, want)));
                }
            }
            Ok(true)
        }
        Ran::Done(Err(e)) => {
            if let Some(want) = reference_depfile(bytes) {
                return Err(("well-formed-rejected".into(), format!("depfile {:?} is well-formed ({:?}) but was rejected: {:?}", String::from_utf8_lossy(bytes), want, e)));
            }
            let e = String::from_utf8_lossy(e.as_bytes()).into_owned();
            let nl = bytes.iter().filter(|&&c| c == b'\n').count() + 1;
            match check_parse_error_shape_x(&e, "x.d", nl, std::str::from_utf8(bytes).is_ok()) {
                Ok(()) => Ok(false),
                Err(why) => Err(("diagnostic-shape".into(), format!("depfile {:?}: malformed diagnostic ({}): {:?}", String::from_utf8_lossy(bytes), why, e))),
            }
        }
    }
}

pub struct C15;

impl C15 {
    fn structured(&self, case: &Case, env: &Env) -> CaseOut {
        let mut t = Tape::new(&case.main);
        let tnames = ["out.o", "build/browse.o", "C:/x/out.obj", "a\\b.o", "\u{e9}.o", "o", "\u{4f60}.o"];
        let pnames = ["a.h", "src/b.cc", "C:/inc/w.h", "dir\\win.h", "\u{20ac}.h", "x", "../up.h", "./a.h", "a:b", "voil\u{e0}.h", "\u{c5}ngstrom.h", "\u{4f60}\u{597d}.h"];
        let ne = 1 + t.weighted(&[6, 3, 2, 1]);
        let mut entries: Vec<(String, Vec<String>)> = vec![];
        let mut text = String::new();
        let mut classes: Vec<String> = vec![];
        let dup_target = t.chance(8);
        for e in 0..ne {
            let mut target = if t.chance(12) { format!("{}.o", "t".repeat(9 + t.below(26))) } else { tnames[t.below(tnames.len())].to_string() };
            if entries.iter().any(|x| x.0 == target) && !dup_target {
                target = format!("{}{}", e, target);
            }
            let np = t.below(7);
            // (also names of every length from 12 to 37: parsers that work block-wise have their seams there)
            let prereqs: Vec<String> = (0..np).map(|_| if t.chance(20) { format!("{}.h", "p".repeat(10 + t.below(26))) } else { pnames[t.below(pnames.len())].to_string() }).collect();
            // formatting
            text.push_str(&target);
            text.push_str(&" ".repeat(t.weighted(&[6, 2, 1])));
            text.push(':');
            let mut first = true;
            for p in &prereqs {
                let sep = match t.weighted(&[6, 2, 2]) {
                    0 => " ".to_string(),
                    1 => " ".repeat(2 + t.below(2)),
                    _ => {
                        classes.push(if first { "continuation-after-colon".into() } else { "continuation".into() });
                        if t.chance(20) {
                            // an empty continuation line
                            classes.push("empty-continuation-line".into());
                            format!("{}\\\n{}\\\n{}", " ".repeat(t.below(2)), " ".repeat(t.below(3)), " ".repeat(t.below(4)))
                        } else {
                            format!("{}\\\n{}", " ".repeat(t.below(2)), " ".repeat(t.below(4)))
                        }
                    }
                };
                // directly after the colon a separator is needed only if the target name ends the token
                text.push_str(&sep);
                text.push_str(p);
                first = false;
            }
            if t.chance(15) {
                text.push_str(&" ".repeat(1 + t.below(3)));
                classes.push("trailing-spaces".into());
            }
            if t.chance(10) {
                text.push_str(" \\\n");
                classes.push("continuation-before-end".into());
            }
            let last = e + 1 == ne;
            if !last || !t.chance(25) {
                text.push('\n');
                if t.chance(15) {
                    text.push('\n');
                    classes.push("blank-line".into());
                }
            } else {
                classes.push("no-final-newline".into());
            }
            entries.push((target, prereqs));
        }
        let mut out = CaseOut { evals: 1, ..Default::default() };
        let same_target_twice = (0..entries.len()).any(|i| entries[..i].iter().any(|x| x.0 == entries[i].0));
        if same_target_twice {
            classes.push("target-listed-twice".into());
        }
        // prerequisites of all targets, targets in order of first appearance (a target listed again adds to its entry)
        let mut grouped: Vec<(String, Vec<String>)> = vec![];
        for (tg, ps) in &entries {
            match grouped.iter_mut().find(|g| g.0 == *tg) {
                Some(g) => g.1.extend(ps.iter().cloned()),
                None => grouped.push((tg.clone(), ps.clone())),
            }
        }
        let expect: Vec<String> = grouped.iter().flat_map(|e| e.1.iter().cloned()).collect();
        match parse(text.as_bytes()) {
            Ran::Panic(m, f) => out.viols.push(Viol::new("C15", util::panic_key(&m, &f), format!("parsing panicked: {}", m))),
            Ran::Done(Err(e)) => out.viols.push(Viol::new("C15", "valid-depfile-rejected", format!("a well-formed depfile was rejected: {:?}", e))),
            Ran::Done(Ok(got)) => {
                let flat: Vec<String> = got.iter().flat_map(|e| e.1.iter().cloned()).collect();
                if flat != expect {
                    let key = if same_target_twice { "target-listed-twice-loses-prerequisites" } else { "prerequisites-differ" };
                    out.viols.push(Viol::new("C15", key, format!("prerequisites expected {:?} got {:?}", expect, flat)));
                }
                let mut tg: Vec<&String> = entries.iter().map(|e| &e.0).collect();
                tg.dedup();
                let gt: Vec<&String> = got.iter().map(|e| &e.0).collect();
                let mut uniq: Vec<&String> = vec![];
                for x in tg {
                    if !uniq.contains(&x) {
                        uniq.push(x);
                    }
                }
                if gt != uniq && out.viols.is_empty() {
                    out.viols.push(Viol::new("C15", "targets-differ", format!("targets expected {:?} got {:?}", uniq, gt)));
                }
            }
        }
        // the same through the file-reading entry point used after a command finishes
        if out.viols.is_empty() {
            util::fresh_cwd(&env.dir.join("d"));
            std::fs::write("x.d", &text).unwrap();
            match guarded(u64::MAX, || n2::verif::read_depfile("x.d")) {
                Ran::Done(Ok(v)) if v == expect => {}
                Ran::Done(other) => out.viols.push(Viol::new("C15", "read_depfile-differs", format!("read_depfile gives {:?}, expected {:?}", other, expect))),
                Ran::Panic(m, f) => out.viols.push(Viol::new("C15", util::panic_key(&m, &f), format!("read_depfile panicked: {}", m))),
            }
            match guarded(u64::MAX, || n2::verif::read_depfile("no/such/file.d")) {
                Ran::Done(Ok(v)) if v.is_empty() => {}
                other => out.viols.push(Viol::new("C15", "missing-depfile", format!("a missing depfile must count as empty, got {:?}", matches!(other, Ran::Done(Ok(_)))))),
            }
            let _ = std::env::set_current_dir("/");
        }
        classes.sort();
        classes.dedup();
        out.nontrivial = ne >= 2 || classes.iter().any(|c| c == "continuation-after-colon" || c == "no-final-newline");
        out.classes = classes;
        out.fp = fnv_str(&text);
        out.desc = json!({"depfile": text, "expected_prerequisites": expect});
        out
    }

    /// malformed depfiles through read_depfile: the message names the depfile and has the diagnostic shape
    fn malformed(&self, case: &Case, env: &Env) -> CaseOut {
        let mut t = Tape::new(&case.main);
        let frags = ["a.o: b.h", " \\x", "\\", "a b: c", "x", ":", "a.o :", "\n", "a: b \\\n c", " ", "\\ ", "a.o: \\q", "\u{e9}: \\", "\t"];
        let mut text = String::new();
        for _ in 0..1 + t.below(5) {
            text.push_str(frags[t.below(frags.len())]);
        }
        let mut out = CaseOut { evals: 1, ..Default::default() };
        util::fresh_cwd(&env.dir.join("d"));
        let name = ["x.d", "sub/dir/y.d", "\u{e9} z.d"][t.below(3)];
        if let Some(p) = std::path::Path::new(name).parent() {
            let _ = std::fs::create_dir_all(p);
        }
        std::fs::write(name, &text).unwrap();
        let nm = name.to_string();
        match guarded(64 * text.len() as u64 + 4096, move || n2::verif::read_depfile(&nm)) {
            Ran::Panic(m, f) => out.viols.push(Viol::new("C15", util::panic_key(&m, &f), format!("read_depfile({:?}) panicked: {}", text, m))),
            Ran::Done(Ok(_)) => {}
            Ran::Done(Err(e)) => {
                out.nontrivial = true;
                let e = String::from_utf8_lossy(e.as_bytes()).into_owned();
                let nl = text.bytes().filter(|&c| c == b'\n').count() + 1;
                if let Err(why) = check_parse_error_shape(&e, name, nl) {
                    out.viols.push(Viol::new("C15", "diagnostic-shape", format!("depfile {:?} ({}): diagnostic does not name the depfile / malformed ({}): {:?}", text, name, why, e)));
                }
            }
        }
        let _ = std::env::set_current_dir("/");
        out.fp = fnv_str(&format!("{}|{}", name, text));
        out.desc = json!({"depfile": text, "path": name});
        out
    }

    pub fn enum_unit(&self, u: u64, maxlen: usize, env: &Env) -> CaseOut {
        // unit = prefix of 3 symbols (125 units); unit 0 also covers the shorter strings
        let mut out = CaseOut::default();
        let mut prefix = vec![];
        let mut x = u;
        for _ in 0..3 {
            prefix.push(ALPHA[(x % 5) as usize]);
            x /= 5;
        }
        let mut accepted = 0u64;
        let mut run = |s: &[u8], out: &mut CaseOut| -> bool {
            out.evals += 1;
            if env.replaying && !survives(|| {
                let _ = parse(s);
            }) {
                out.viols.push(Viol::new("C15", "process-death", format!("parsing depfile {:?} kills the process", String::from_utf8_lossy(s))));
                out.replay = Some(json!({"depfile": String::from_utf8_lossy(s)}));
                return false;
            }
            match totality_one(s) {
                Ok(ok) => {
                    if ok {
                        accepted += 1;
                    }
                    true
                }
                Err((k, m)) => {
                    out.viols.push(Viol::new("C15", k, m));
                    out.replay = Some(json!({"depfile": String::from_utf8_lossy(s)}));
                    false
                }
            }
        };
        if u == 0 {
            if !run(b"", &mut out) {
                return out;
            }
            for l in 1..3usize {
                for k in 0..5u64.pow(l as u32) {
                    let mut s = vec![];
                    let mut y = k;
                    for _ in 0..l {
                        s.push(ALPHA[(y % 5) as usize]);
                        y /= 5;
                    }
                    if !run(&s, &mut out) {
                        return out;
                    }
                }
            }
        }
        for l in 0..=(maxlen - 3) {
            for k in 0..5u64.pow(l as u32) {
                let mut s = prefix.clone();
                let mut y = k;
                for _ in 0..l {
                    s.push(ALPHA[(y % 5) as usize]);
                    y /= 5;
                }
                if !run(&s, &mut out) {
                    return out;
                }
            }
        }
        out.nontrivial = true;
        out.fp = u;
        out.extra_distinct = accepted.saturating_sub(1);
        out.desc = json!({"prefix": String::from_utf8_lossy(&prefix), "inputs": out.evals, "accepted": accepted});
        out
    }
}

/// Symbols of the second enumeration: what compilers on other platforms and in other locales put into depfiles
/// (CR, tab, names with bytes 0x85 / 0xA0 inside a multi-byte character, and those bytes alone).
const WIDE: [&[u8]; 9] = [b"a", b" ", b":", b"\\", b"\n", b"\r", b"\t", b"\xc3\xa0", b"\xc2\x85"];

impl C15 {
    pub fn enum_wide_unit(&self, u: u64, maxsyms: usize, env: &Env) -> CaseOut {
        // unit = first two symbols (81 units); unit 0 also covers the strings of fewer than two symbols
        let mut out = CaseOut::default();
        let n = WIDE.len() as u64;
        let mut accepted = 0u64;
        let mut run = |s: &[u8], out: &mut CaseOut| -> bool {
            out.evals += 1;
            if env.replaying && !survives(|| {
                let _ = parse(s);
            }) {
                out.viols.push(Viol::new("C15", "process-death", format!("parsing depfile {:?} kills the process", String::from_utf8_lossy(s))));
                out.replay = Some(json!({"depfile_bytes": s}));
                return false;
            }
            match totality_one(s) {
                Ok(ok) => {
                    if ok {
                        accepted += 1;
                    }
                    true
                }
                Err((k, m)) => {
                    out.viols.push(Viol::new("C15", k, m));
                    out.replay = Some(json!({"depfile_bytes": s}));
                    false
                }
            }
        };
        if u == 0 {
            for k in 0..n {
                if !run(WIDE[k as usize], &mut out) {
                    return out;
                }
            }
        }
        let mut prefix: Vec<u8> = vec![];
        prefix.extend_from_slice(WIDE[(u % n) as usize]);
        prefix.extend_from_slice(WIDE[((u / n) % n) as usize]);
        for l in 0..=(maxsyms - 2) {
            for k in 0..n.pow(l as u32) {
                let mut s = prefix.clone();
                let mut y = k;
                for _ in 0..l {
                    s.extend_from_slice(WIDE[(y % n) as usize]);
                    y /= n;
                }
                if !run(&s, &mut out) {
                    return out;
                }
            }
        }
        out.nontrivial = true;
        out.fp = 1_000_000 + u;
        out.extra_distinct = accepted.saturating_sub(1);
        out.desc = json!({"prefix": String::from_utf8_lossy(&prefix), "inputs": out.evals, "accepted": accepted});
        out
    }
}

impl Check for C15 {
    fn id(&self) -> &'static str {
        "C15"
    }
    fn rule(&self) -> String {
        "(a) structured depfiles: 1-4 `target: prerequisites` entries (plain and C:/ style names, backslashes inside names), 0-2 spaces before the colon, 1-3 between prerequisites, backslash-newline continuations after the colon / between prerequisites / before the end of an entry, blank lines, trailing spaces, with or without final newline; oracle: flattened prerequisites of all targets in order equal the AST, through the parser and through read_depfile; missing file => empty. (b) malformed fragments through read_depfile: diagnostic names the depfile and has the caret shape. (c) ALL strings of length <= 9 (quick) / <= 11 (thorough) over {a, space, colon, backslash, newline}: Ok or well-formed diagnostic, no panic, bounded scanning. Non-trivial: >= 2 entries, a continuation next to the colon, or no final newline; for (c) accepted inputs; distinct by text".into()
    }
    fn assumptions(&self) -> Vec<String> {
        vec!["tabs, backslash-escaped spaces and several targets before one colon are not generated (the property speaks of `target: prerequisite ...` entries as compilers write them)".into()]
    }
    fn exhaustive(&self, tier: Tier) -> Option<String> {
        Some(format!("all strings up to length {} over {{a, ' ', ':', '\\\\', '\\n'}}", tier.pick(9, 11)))
    }
    fn parts(&self, tier: Tier) -> Vec<Part> {
        vec![
            Part { name: "structured", kind: PartKind::Random { cases: tier.pick(600_000, 6_000_000), main: 120, ops: 0, oplen: 0, sched: 0 } },
            Part { name: "malformed", kind: PartKind::Random { cases: tier.pick(200_000, 2_000_000), main: 12, ops: 0, oplen: 0, sched: 0 } },
            Part { name: "enum", kind: PartKind::Enum { units: 125 } },
            Part { name: "enum-wide", kind: PartKind::Enum { units: 81 } },
            Part { name: "bb-depfile", kind: PartKind::Random { cases: tier.pick(48, 600), main: 8, ops: 0, oplen: 0, sched: 0 } },
        ]
    }
    fn run_unit(&mut self, part: &str, u: u64, env: &mut Env) -> CaseOut {
        if part == "enum-wide" {
            return self.enum_wide_unit(u, env.tier.pick(6, 7), env);
        }
        self.enum_unit(u, env.tier.pick(9, 11), env)
    }
    fn run_random(&mut self, part: &str, case: &Case, env: &mut Env) -> CaseOut {
        match part {
            "bb-depfile" => crate::bb::deps::run_bad_depfile_case(case, env),
            "malformed" => self.malformed(case, env),
            _ => self.structured(case, env),
        }
    }
    fn run_replay(&mut self, _part: &str, replay: &Value, _env: &mut Env) -> CaseOut {
        let bytes: Vec<u8> = match replay["depfile_bytes"].as_array().or(replay["raw_bytes"].as_array()) {
            Some(a) => a.iter().map(|x| x.as_u64().unwrap_or(0) as u8).collect(),
            None => replay["depfile"].as_str().unwrap_or("").as_bytes().to_vec(),
        };
        let text = String::from_utf8_lossy(&bytes).into_owned();
        let mut out = CaseOut { evals: 1, ..Default::default() };
        if !survives(|| {
            let _ = parse(&bytes);
        }) {
            out.viols.push(Viol::new("C15", "process-death", format!("parsing depfile {:?} kills the process", text)));
            return out;
        }
        if let Some(exp) = replay["expect"].as_array() {
            // pinned structured case: expected flattened prerequisites
            let expect: Vec<String> = exp.iter().map(|v| v.as_str().unwrap_or("").to_string()).collect();
            match parse(text.as_bytes()) {
                Ran::Done(Ok(got)) => {
                    let flat: Vec<String> = got.iter().flat_map(|e| e.1.iter().cloned()).collect();
                    if flat != expect {
                        out.viols.push(Viol::new("C15", replay["key"].as_str().unwrap_or("prerequisites-differ"), format!("prerequisites expected {:?} got {:?}", expect, flat)));
                    }
                }
                _ => out.viols.push(Viol::new("C15", "pinned-failed", "pinned depfile did not parse".to_string())),
            }
        } else if let Err((k, m)) = totality_one(&bytes) {
            out.viols.push(Viol::new("C15", k, m));
        }
        out.desc = json!({"depfile": text});
        out
    }
}
