//! C12: any input is loaded or rejected with a diagnostic -- never a panic, abort, out-of-bounds read or loop.

use super::*;
use crate::engine::*;
use crate::syn::ast::Renderer;
use crate::syn::gen::{Gen, SynOpts};
use crate::tape::{fnv, fnv_str, Case, Tape};
use serde_json::{json, Value};
use std::path::PathBuf;

pub const TOKENS: [&[u8]; 26] = [
    b"build", b"rule", b"default", b"include", b"subninja", b"pool", b"x", b"p", b" ", b"\n", b":", b"|", b"||", b"|@", b"=", b"#", b"$", b"$\n", b"${", b"}", b"$$", b"\t", b"\r", b"\0", "\u{e9}".as_bytes(),
    "\u{1F600}".as_bytes(),
];

/// Load manifest bytes as `build.ninja` in the current directory through the public loader API.
pub fn load_bytes(bytes: &[u8]) -> Ran<Result<(), String>> {
    let mut buf = bytes.to_vec();
    buf.push(0);
    let budget = 64 * buf.len() as u64 + 4096;
    guarded(budget, move || {
        let mut loader = n2::load::Loader::new();
        let mut parser = n2::parse::Parser::new(&buf);
        loader.parse_with_parser(&mut parser, PathBuf::from("build.ninja"), &[]).map_err(|e| e.to_string())
    })
}

/// Ok(accepted) or (key, message).
pub fn judge_load(bytes: &[u8]) -> Result<bool, (String, String)> {
    let shown = || String::from_utf8_lossy(bytes).chars().take(300).collect::<String>();
    match load_bytes(bytes) {
        Ran::Panic(m, f) => {
            let key = if m.contains("too many path components") { "too-many-path-components".to_string() } else { util::panic_key(&m, &f) };
            Err((key, format!("loading {:?} panicked: {} ({})", shown(), m, f)))
        }
        Ran::Done(Ok(())) => Ok(true),
        Ran::Done(Err(e)) => {
            let e = String::from_utf8_lossy(e.as_bytes()).into_owned();
            if e.is_empty() {
                return Err(("empty-diagnostic".into(), format!("loading {:?} failed with an empty message", shown())));
            }
            if e.starts_with("parse error: ") {
                let nl = bytes.iter().filter(|&&c| c == b'\n').count() + 2;
                let file = e.lines().nth(1).and_then(|l| l.split(':').next()).unwrap_or("").to_string();
                let bound = if file == "build.ninja" { nl } else { 1_000_000 };
                if let Err(why) = check_parse_error_shape_x(&e, &file, bound, std::str::from_utf8(bytes).is_ok()) {
                    return Err(("diagnostic-shape".into(), format!("loading {:?}: malformed syntax diagnostic ({}): {:?}", shown(), why, e)));
                }
            }
            Ok(false)
        }
    }
}

pub struct C12 {
    pub dir_ready: bool,
}

fn prepare_dir(env: &Env) {
    let d = env.dir.join("c12");
    util::fresh_cwd(&d);
    std::fs::write("p", "y = 1\n").unwrap();
    std::fs::create_dir_all("x").unwrap();
    std::fs::write("self.ninja", "include self.ninja\n").unwrap();
    // children whose first statement reads a file named through a variable of the parent
    std::fs::write("kid_inc.ninja", "include $lv\n").unwrap();
    std::fs::write("kid_sub.ninja", "subninja ${lv}/x\n").unwrap();
}

impl C12 {
    fn one(&self, s: &[u8], out: &mut CaseOut, accepted: &mut u64, sigs: &mut std::collections::BTreeSet<u64>, env: &Env) -> bool {
        out.evals += 1;
        if let Ok(p) = std::env::var("N2CHECK_DUMP_INPUT") {
            let _ = std::fs::write(p, s);
        }
        if env.replaying && !survives(|| {
            let _ = load_bytes(s);
        }) {
            out.viols.push(Viol::new("C12", "process-death", format!("loading {:?} kills the process (abort / out-of-bounds check / stack overflow)", String::from_utf8_lossy(s))));
            out.replay = Some(json!({"manifest_bytes": s}));
            return false;
        }
        match judge_load(s) {
            Ok(true) => {
                *accepted += 1;
                sigs.insert(fnv(&[s]));
                true
            }
            Ok(false) => true,
            Err((k, m)) => {
                out.viols.push(Viol::new("C12", k, m));
                out.replay = Some(json!({"manifest_bytes": s}));
                false
            }
        }
    }

    fn enum_unit(&mut self, u: u64, maxtok: usize, env: &Env) -> CaseOut {
        prepare_dir(env);
        let mut out = CaseOut::default();
        let n = TOKENS.len() as u64;
        let prefix: Vec<u8> = [TOKENS[(u % n) as usize], TOKENS[(u / n) as usize]].concat();
        let mut accepted = 0u64;
        let mut sigs = std::collections::BTreeSet::new();
        let mut inputs: Vec<Vec<u8>> = vec![];
        if u == 0 {
            inputs.push(vec![]);
            for t in TOKENS.iter() {
                inputs.push(t.to_vec());
            }
        }
        for l in 0..=(maxtok - 2) {
            for k in 0..n.pow(l as u32) {
                let mut s = prefix.clone();
                let mut y = k;
                for _ in 0..l {
                    s.extend_from_slice(TOKENS[(y % n) as usize]);
                    y /= n;
                }
                inputs.push(s);
            }
        }
        for s in &inputs {
            if !self.one(s, &mut out, &mut accepted, &mut sigs, env) {
                return out;
            }
            // the same with a final newline (files normally end with one)
            let mut s2 = s.clone();
            s2.push(b'\n');
            if !self.one(&s2, &mut out, &mut accepted, &mut sigs, env) {
                return out;
            }
        }
        out.nontrivial = accepted > 0;
        out.fp = u;
        out.extra_fps = sigs.into_iter().collect();
        out.desc = json!({"prefix": String::from_utf8_lossy(&prefix), "inputs": out.evals, "accepted": accepted});
        let _ = std::env::set_current_dir("/");
        out
    }

    /// (b) mutations of valid manifests; (d) long lines, deep paths, empty expansions, odd includes
    fn mutants(&mut self, case: &Case, env: &Env) -> CaseOut {
        prepare_dir(env);
        let mut mt = Tape::new(&case.main);
        let mut g = Gen { t: &mut mt, o: SynOpts { vars_heavy: false, children: false, respell_pct: 5, special_chars_pct: 20 }, counter: 0, rules: vec![], rule_refs: vec![], features: vec![] };
        let m = g.manifest();
        let empty: Vec<u16> = vec![];
        let mut rt = Tape::new(case.ops.first().unwrap_or(&empty));
        let mut r = Renderer { t: &mut rt, variation: 2, features: vec![], line: 1 };
        let text = r.manifest(&m).files["build.ninja"].clone().into_bytes();
        let mut t = Tape::new(case.ops.get(1).unwrap_or(&empty));
        let mut out = CaseOut::default();
        let mut accepted = 0u64;
        let mut sigs = std::collections::BTreeSet::new();
        let mut b = text.clone();
        let kind = t.below(10);
        let describe;
        match kind {
            0 => {
                // truncate at a random offset
                let at = t.below(b.len() + 1);
                b.truncate(at);
                describe = format!("truncate at {}", at);
            }
            1 | 2 => {
                // delete / duplicate a token-ish span
                if !b.is_empty() {
                    let a = t.below(b.len());
                    let l = 1 + t.below(8);
                    let e = (a + l).min(b.len());
                    if kind == 1 {
                        b.drain(a..e);
                    } else {
                        let span = b[a..e].to_vec();
                        let at = t.below(b.len() + 1);
                        for (i, x) in span.into_iter().enumerate() {
                            b.insert(at + i, x);
                        }
                    }
                }
                describe = if kind == 1 { "delete span".into() } else { "duplicate span".into() };
            }
            3 => {
                // byte flips / inserts from an alphabet of troublemakers
                let n = 1 + t.below(4);
                for _ in 0..n {
                    let c = b"$\n \t\r:|#{}=\0\xc3\xff@\xa0\x80\xbf"[t.below(18)];
                    if b.is_empty() || t.chance(50) {
                        let at = t.below(b.len() + 1);
                        b.insert(at, c);
                    } else {
                        let at = t.below(b.len());
                        b[at] = c;
                    }
                }
                describe = "byte edits".into();
            }
            4 => {
                // very long line / value
                let n = 1000 + t.below(60_000);
                let unit: &[u8] = [&b"a"[..], "\u{20ac}".as_bytes(), b"a b ", b"$x"][t.below(4)];
                let mut line = b"build ".to_vec();
                for _ in 0..n / unit.len() {
                    line.extend_from_slice(unit);
                }
                line.extend_from_slice(b": phony\n");
                b.extend_from_slice(&line);
                describe = format!("long line of {} bytes", n);
            }
            5 => {
                // deep paths: 1..200 components (more than 60 pending ones is finding F2)
                let n = 1 + t.below(200);
                let up = t.chance(30);
                let mut p = String::new();
                for i in 0..n {
                    p.push_str(if up && i % 3 == 2 { "../" } else { "d/" });
                }
                p.push('f');
                b.extend_from_slice(format!("build {}: phony\n", p).as_bytes());
                describe = format!("path with {} components", n);
            }
            6 => {
                // empty expansions in every path position
                let forms = ["build $e: phony\n", "build a: phony $e\n", "build a | $e: phony\n", "build a: phony | $e\n", "build a: phony || $e\n", "build a: phony |@ $e\n", "default $e\n", "include $e\n", "subninja $e\n", "build a$e: phony\n", "e2 = $e\nbuild ${e2}: phony\n"];
                b.extend_from_slice(forms[t.below(forms.len())].as_bytes());
                describe = "empty expansion in a path position".into();
            }
            8 => {
                // a block followed by an unfinished indented line as the very last bytes (no final newline)
                let heads = ["rule zz9\n  command = c\n", "build zz9: phony\n", "pool zz9\n  depth = 1\n", "build zz8: phony\n  x = 1\n"];
                let tails = ["  #", "  # comment", "\t#", "  x", "  x =", "  x = $", "  x = ${", "  x = ${y", "  $", "  x = a $\n", "  x = a $\n  ", "  =", "  #\0", "  x = \r", "#", "  |", "  :"];
                b.extend_from_slice(heads[t.below(heads.len())].as_bytes());
                b.extend_from_slice(tails[t.below(tails.len())].as_bytes());
                describe = "unfinished indented line at end of file".into();
            }
            7 => {
                let forms = ["lv = a_rather_long_name_of_a_file_that_does_not_exist_anywhere_in_this_directory.ninja\nsubninja kid_inc.ninja\n", "lv = x\ninclude kid_sub.ninja\n", "lv = another/quite/long/path/of/which/no/component/exists/at/all\nsubninja kid_sub.ninja\n", "include x\n", "include nosuch\n", "subninja x\n", "include p\ninclude p\n", "subninja p\n", "include \u{e9}\n", "include p extra\n", "include self.ninja\n", "subninja self.ninja\n"];
                b.extend_from_slice(forms[t.below(forms.len())].as_bytes());
                describe = "include of a directory / missing file / itself".into();
            }
            _ => {
                // splice with the tail of itself
                let a = t.below(b.len() + 1);
                let c = t.below(b.len() + 1);
                let tail = b[c..].to_vec();
                b.truncate(a);
                b.extend_from_slice(&tail);
                describe = "splice".into();
            }
        }
        let deep = kind == 5;
        let ok = self.one(&b, &mut out, &mut accepted, &mut sigs, env);
        if !ok && deep {
            // keep the exact signature for the listed finding
        }
        out.nontrivial = true;
        out.classes = vec![format!("mutation:{}", describe.split(' ').next().unwrap_or(""))];
        out.fp = fnv(&[&b]);
        out.desc = json!({"mutation": describe, "manifest": String::from_utf8_lossy(&b).chars().take(600).collect::<String>(), "manifest_bytes": if b.len() <= 70_000 { json!(b) } else { json!(null) }});
        let _ = std::env::set_current_dir("/");
        out
    }

    /// (f) the real binary: a rejected manifest => exit status 1 and a first line `n2: error: ...`; never a signal or a Rust panic
    /// the real binary actually running a command whose text carries odd bytes: it must end (no thread panic) with
    /// exit 0, or exit 1 and an error / failed line
    fn bb_exec(&mut self, case: &Case, env: &Env) -> CaseOut {
        let mut t = Tape::new(&case.main);
        prepare_dir(env);
        let mut junk: Vec<u8> = vec![];
        for _ in 0..t.below(6) {
            junk.extend_from_slice([&b"a"[..], b" ", b"\0", b"\xff", b"\xc3", b"$$", b"'", b"\"", b"\\", b"\xe2\x82\xac", b";", b"#"][t.below(12)]);
        }
        let place = t.below(4);
        let mut m: Vec<u8> = b"rule r\n  command = true ".to_vec();
        if place == 0 {
            m.extend_from_slice(&junk);
        }
        m.extend_from_slice(b"\n  description = D");
        if place == 1 {
            m.extend_from_slice(&junk);
        }
        m.extend_from_slice(b"\n");
        if place == 2 {
            m.extend_from_slice(b"  rspfile = out.rsp\n  rspfile_content = ");
            m.extend_from_slice(&junk);
            m.extend_from_slice(b"\n");
        }
        m.extend_from_slice(b"build out: r\n");
        if place == 3 {
            m.extend_from_slice(b"  depfile = d");
            m.extend_from_slice(&junk);
            m.extend_from_slice(b"\n");
        }
        std::fs::write("build.ninja", &m).unwrap();
        let mut out = CaseOut { evals: 1, nontrivial: !junk.is_empty(), ..Default::default() };
        // a thread panic leaves n2 waiting forever: once "panicked" shows up on stderr the verdict is known; without
        // it n2 gets a generous minute (a loaded machine is no violation)
        use std::io::Read;
        let spawned = std::process::Command::new(crate::bb::n2_binary()).args(["-j", "1", "out"]).stdin(std::process::Stdio::null()).stdout(std::process::Stdio::piped()).stderr(std::process::Stdio::piped()).spawn();
        match spawned {
            Err(e) => out.viols.push(Viol::new("INFRA", "cannot-run-n2", format!("cannot run n2: {}", e))),
            Ok(mut ch) => {
                let errbuf = std::sync::Arc::new(std::sync::Mutex::new(Vec::<u8>::new()));
                let outbuf = std::sync::Arc::new(std::sync::Mutex::new(Vec::<u8>::new()));
                let mut handles = vec![];
                if let Some(mut e) = ch.stderr.take() {
                    let b = errbuf.clone();
                    handles.push(std::thread::spawn(move || {
                        let mut tmp = [0u8; 4096];
                        while let Ok(n) = e.read(&mut tmp) {
                            if n == 0 {
                                break;
                            }
                            b.lock().unwrap().extend_from_slice(&tmp[..n]);
                        }
                    }));
                }
                if let Some(mut o) = ch.stdout.take() {
                    let b = outbuf.clone();
                    handles.push(std::thread::spawn(move || {
                        let mut tmp = [0u8; 4096];
                        while let Ok(n) = o.read(&mut tmp) {
                            if n == 0 {
                                break;
                            }
                            b.lock().unwrap().extend_from_slice(&tmp[..n]);
                        }
                    }));
                }
                let t0 = std::time::Instant::now();
                let mut panic_seen: Option<std::time::Instant> = None;
                let mut status = None;
                let mut hung = false;
                loop {
                    if let Ok(Some(st)) = ch.try_wait() {
                        status = Some(st);
                        break;
                    }
                    if panic_seen.is_none() && String::from_utf8_lossy(&errbuf.lock().unwrap()).contains("panicked") {
                        panic_seen = Some(std::time::Instant::now());
                    }
                    if panic_seen.map(|p| p.elapsed().as_millis() > 1500).unwrap_or(false) || t0.elapsed().as_secs() >= 60 {
                        hung = true;
                        let _ = ch.kill();
                        let _ = ch.wait();
                        break;
                    }
                    std::thread::sleep(std::time::Duration::from_millis(10));
                }
                for h in handles {
                    let _ = h.join();
                }
                let so = String::from_utf8_lossy(&outbuf.lock().unwrap()).into_owned();
                let se = String::from_utf8_lossy(&errbuf.lock().unwrap()).into_owned();
                let code = status.and_then(|s| s.code());
                if se.contains("panicked") || so.contains("panicked") {
                    out.viols.push(Viol::new("C12", "binary-panicked", format!("n2 panicked while building with this manifest{}: {}", if hung { " (and then hung)" } else { "" }, se.lines().find(|l| l.contains("panicked")).unwrap_or("").chars().take(200).collect::<String>())));
                } else if hung || status.map(|s| s.code().is_none()).unwrap_or(true) {
                    out.viols.push(Viol::new("INFRA", "watchdog", "n2 did not finish within 60 s or was killed".to_string()));
                } else if !(code == Some(0) || (code == Some(1) && (so.contains("n2: error: ") || so.contains("failed: ")))) {
                    out.viols.push(Viol::new("C12", "exit-status", format!("exit {:?} without an error or failed line: {:?}", code, so.chars().take(200).collect::<String>())));
                }
            }
        }
        out.fp = fnv(&[&m]);
        out.classes = vec!["bb-exec".into()];
        out.desc = json!({"manifest": String::from_utf8_lossy(&m)});
        let _ = std::env::set_current_dir("/");
        out
    }

    fn bb_cli(&mut self, case: &Case, env: &Env) -> CaseOut {
        if case.main.first().copied().unwrap_or(0) % 3 == 0 {
            return self.bb_exec(case, env);
        }
        let mut out = self.mutants(case, env);
        if !out.viols.is_empty() {
            return out;
        }
        // self.mutants ran the in-process loader on the mutated manifest and reported nothing: now the real thing
        let text = out.desc["manifest_full"].as_str().unwrap_or("").as_bytes().to_vec();
        let bytes: Vec<u8> = match out.desc["manifest_bytes"].as_array() {
            Some(a) => a.iter().map(|x| x.as_u64().unwrap_or(0) as u8).collect(),
            None => text,
        };
        prepare_dir(env);
        std::fs::write("build.ninja", &bytes).unwrap();
        let accepted = matches!(load_bytes(&bytes), Ran::Done(Ok(())));
        let o = std::process::Command::new(crate::bb::n2_binary()).args(["-j", "1", "nosuchtarget_zz"]).stdin(std::process::Stdio::null()).output();
        out.evals += 1;
        match o {
            Err(e) => out.viols.push(Viol::new("INFRA", "cannot-run-n2", format!("cannot run n2: {}", e))),
            Ok(o) => {
                use std::os::unix::process::ExitStatusExt;
                let so = String::from_utf8_lossy(&o.stdout).into_owned();
                let se = String::from_utf8_lossy(&o.stderr).into_owned();
                let first = so.lines().find(|l| !l.starts_with("n2: warn:")).unwrap_or("").to_string();
                if o.status.signal().is_some() || se.contains("panicked") || so.contains("panicked") {
                    out.viols.push(Viol::new("C12", "binary-died", format!("the n2 binary died on this manifest: status {:?}, stderr {:?}", o.status, se.chars().take(300).collect::<String>())));
                } else if o.status.code() != Some(1) {
                    // the requested target does not exist, so even an accepted manifest must end in an error
                    out.viols.push(Viol::new("C12", "exit-status", format!("expected exit status 1 (accepted by the loader: {}), got {:?}; stdout {:?}", accepted, o.status.code(), so.chars().take(200).collect::<String>())));
                } else if !first.starts_with("n2: error: ") {
                    out.viols.push(Viol::new("C12", "no-error-line", format!("exit 1 but the first line is not an `n2: error:` diagnostic: {:?}", first)));
                } else if accepted && !first.contains("unknown path requested") && !first.contains("nosuchtarget_zz") && !first.contains("missing") {
                    // accepted manifests may still fail for graph-level reasons; only the shape is required
                }
            }
        }
        let _ = std::env::set_current_dir("/");
        out
    }

    /// (e) command-line target strings and (f) the whole command line path in-process
    fn targets(&mut self, case: &Case, env: &Env) -> CaseOut {
        util::fresh_cwd(&env.dir.join("c12t"));
        // (an output-less statement is accepted by the grammar; it is the first user of in2)
        std::fs::write("build.ninja", "rule r\n  command = c\nbuild : phony in2\nbuild out2 | imp2: r in2 | in || out\nbuild out: r in\nbuild a/b: phony out\n").unwrap();
        std::fs::write("in", "x").unwrap();
        std::fs::write("in2", "x").unwrap();
        let mut t = Tape::new(&case.main);
        let frags = ["", "out", "a/b", "./", "../", "/", "\\", ".", "..", "a", "\u{e9}", " ", "$", ":", "\n", "\u{1F600}", "//", "a/../", "x/", "in", "in2", "^", "@", "imp2", "2", "*", "?", "|", "="];
        let n = t.below(6);
        let mut target = String::new();
        for _ in 0..n {
            target.push_str(frags[t.below(frags.len())]);
        }
        if t.chance(5) {
            target = "d/".repeat(1 + t.below(59)) + "f";
        }
        if t.chance(8) {
            // long names of multi-byte characters at every alignment
            target = "x".repeat(t.below(70)) + &["\u{e9}", "\u{20ac}", "\u{1F600}"][t.below(3)].repeat(1 + t.below(60));
        }
        let mut out = CaseOut { evals: 1, ..Default::default() };
        let _ = util::take_stdout();
        let tg = target.clone();
        let st = std::rc::Rc::new(std::cell::RefCell::new(0usize));
        struct NoExec(std::rc::Rc<std::cell::RefCell<usize>>, Vec<usize>);
        impl n2::verif::Exec for NoExec {
            fn start(&mut self, s: &n2::verif::StepInfo) {
                *self.0.borrow_mut() += 1;
                self.1.push(s.id);
            }
            fn finish(&mut self, _r: usize) -> n2::verif::Finish {
                let id = self.1.pop().unwrap_or(0);
                n2::verif::Finish { id, outcome: n2::verif::Outcome::Failure, output: vec![], last_lines: vec![], discovered: None }
            }
        }
        n2::verif::set_exec(Some(Box::new(NoExec(st.clone(), vec![]))));
        let r = guarded(u64::MAX, move || n2::verif::run_cli(vec!["-j".into(), "1".into(), "--".into(), tg]));
        n2::verif::set_exec(None);
        let _ = util::take_stdout();
        match r {
            Ran::Panic(m, f) => {
                let key = if m.contains("too many path components") { "too-many-path-components".to_string() } else { util::panic_key(&m, &f) };
                out.viols.push(Viol::new("C12", key, format!("target {:?} makes n2 panic: {}", target, m)));
            }
            Ran::Done(Ok(_)) => {}
            Ran::Done(Err(e)) => {
                out.nontrivial = true;
                if e.is_empty() {
                    out.viols.push(Viol::new("C12", "empty-diagnostic", format!("target {:?}: empty error message", target)));
                }
            }
        }
        out.fp = fnv_str(&target);
        out.desc = json!({"target": target});
        let _ = std::env::set_current_dir("/");
        out
    }
}

impl Check for C12 {
    fn id(&self) -> &'static str {
        "C12"
    }
    fn rule(&self) -> String {
        "(a) ALL strings of <= 4 (quick) / <= 5 (thorough) tokens over a 26-token alphabet (6 keywords, identifier, path, space, newline, : | || |@ = # $ $-newline ${ } $$, tab, CR, NUL, a 2-byte and a 4-byte character), each with and without a final newline, loaded through the public loader in a directory holding a file, a directory and a self-including file; (b) generated valid manifests mutated (truncate, delete/duplicate span, byte edits, splice); (c) very long lines, paths of 1..200 components, empty expansions in every path position, include of directory/missing/self; (d) command-line target strings through the real argument path. Oracle: Ok or a non-empty diagnostic; syntax errors have the shape `parse error: ...\\n<file>:<line>: <excerpt>\\n<spaces>^` with the line inside the file and the caret under the excerpt; never a panic, abort (debug assertions make unchecked out-of-bounds reads abort; workers that die are attributed to the in-flight input) or scan-budget overrun (64*len+4096 reads). Non-trivial: accepted inputs, distinct by content; mutants distinct by content".into()
    }
    fn assumptions(&self) -> Vec<String> {
        vec!["paths with more than 60 pending components panic (`too many path components`): listed finding F2, generated only by the deep-path mutation and matched by exact signature".into(), "libFuzzer targets (fuzz/) extend the same oracle with coverage guidance in the thorough tier".into()]
    }
    fn exhaustive(&self, tier: Tier) -> Option<String> {
        Some(format!("all strings of up to {} tokens over the 26-token alphabet, with and without final newline", tier.pick(4, 5)))
    }
    fn parts(&self, tier: Tier) -> Vec<Part> {
        vec![
            Part { name: "tokens", kind: PartKind::Enum { units: 26 * 26 } },
            Part { name: "mutants", kind: PartKind::Random { cases: tier.pick(400_000, 4_000_000), main: 160, ops: 2, oplen: 120, sched: 0 } },
            Part { name: "targets", kind: PartKind::Random { cases: tier.pick(100_000, 1_000_000), main: 10, ops: 0, oplen: 0, sched: 0 } },
            Part { name: "depfiles", kind: PartKind::Enum { units: 125 + 81 } },
            Part { name: "bb-cli", kind: PartKind::Random { cases: tier.pick(96, 2000), main: 160, ops: 2, oplen: 120, sched: 0 } },
        ]
    }
    fn run_unit(&mut self, part: &str, u: u64, env: &mut Env) -> CaseOut {
        if part == "depfiles" {
            // C12 also speaks of depfiles: the exhaustive totality enumeration of C15, reported under C12
            // (units 125.. : the second alphabet with CR, tab and multi-byte names)
            let mut out = if u >= 125 { crate::tot::c15::C15.enum_wide_unit(u - 125, env.tier.pick(6, 7), env) } else { crate::tot::c15::C15.enum_unit(u, env.tier.pick(8, 10), env) };
            for v in out.viols.iter_mut() {
                v.prop = "C12".into();
            }
            return out;
        }
        self.enum_unit(u, env.tier.pick(4, 5), env)
    }
    fn run_random(&mut self, part: &str, case: &Case, env: &mut Env) -> CaseOut {
        match part {
            "bb-cli" => self.bb_cli(case, env),
            "targets" => self.targets(case, env),
            _ => self.mutants(case, env),
        }
    }
    fn run_replay(&mut self, _part: &str, replay: &Value, env: &mut Env) -> CaseOut {
        prepare_dir(env);
        let raw = if replay["raw_bytes"].is_array() { &replay["raw_bytes"] } else { &replay["manifest_bytes"] };
        let dep_bytes: Option<Vec<u8>> = match (replay["depfile_bytes"].as_array(), replay["depfile"].as_str()) {
            (Some(a), _) => Some(a.iter().map(|x| x.as_u64().unwrap_or(0) as u8).collect()),
            (None, Some(d)) => Some(d.as_bytes().to_vec()),
            _ => None,
        };
        if let Some(db) = dep_bytes {
            let d = String::from_utf8_lossy(&db).into_owned();
            let mut out = CaseOut { evals: 1, ..Default::default() };
            if !survives(|| {
                let _ = crate::tot::c15::parse(&db);
            }) {
                out.viols.push(Viol::new("C12", "process-death", format!("parsing depfile {:?} kills the process", d)));
            } else if let Err((k, m)) = crate::tot::c15::totality_one(&db) {
                out.viols.push(Viol::new("C12", k, m));
            }
            return out;
        }
        let bytes: Vec<u8> = match raw {
            Value::Array(a) => a.iter().map(|x| x.as_u64().unwrap_or(0) as u8).collect(),
            Value::String(s) => s.as_bytes().to_vec(),
            _ => vec![],
        };
        let mut out = CaseOut { evals: 1, ..Default::default() };
        if !survives(|| {
            let _ = load_bytes(&bytes);
        }) {
            out.viols.push(Viol::new("C12", "process-death", format!("loading {:?} kills the process", String::from_utf8_lossy(&bytes))));
        } else if let Err((k, m)) = judge_load(&bytes) {
            out.viols.push(Viol::new("C12", k, m));
        }
        out.desc = json!({"manifest": String::from_utf8_lossy(&bytes)});
        let _ = std::env::set_current_dir("/");
        out
    }
    fn pinned(&self) -> Vec<(String, &'static str, Value)> {
        let deep = format!("build {}f: phony\n", "d/".repeat(61));
        vec![("too-many-path-components".into(), "mutants", json!({"manifest_bytes": deep}))]
    }
}
