//! Engine `tot`: exhaustive enumeration over small alphabets, mutation of valid
//! inputs, and the predicates that decide totality / shape properties.

pub mod c12;
pub mod c13;
pub mod c15;
pub mod c20;

use crate::util;

/// Outcome of running a piece of n2 on one input.
pub enum Ran<T> {
    Done(T),
    /// unwinding panic: (message, file)
    Panic(String, String),
}

pub fn guarded<T>(budget: u64, f: impl FnOnce() -> T + std::panic::UnwindSafe) -> Ran<T> {
    let _ = util::take_panic();
    n2::verif::set_scan_budget(Some(budget));
    let r = std::panic::catch_unwind(f);
    n2::verif::set_scan_budget(None);
    match r {
        Ok(v) => Ran::Done(v),
        Err(_) => {
            let (m, f) = util::take_panic().unwrap_or(("<panic>".into(), String::new()));
            Ran::Panic(m, f)
        }
    }
}

/// Run `f` in a forked child; None if the child died (abort, signal, stack overflow).
pub fn survives(f: impl FnOnce()) -> bool {
    unsafe {
        let pid = libc::fork();
        if pid == 0 {
            f();
            libc::_exit(0);
        }
        let mut status = 0;
        libc::waitpid(pid, &mut status, 0);
        libc::WIFEXITED(status) && libc::WEXITSTATUS(status) == 0
    }
}

/// Shape of n2's syntax diagnostics:
/// `parse error: <msg>\n<file>:<line>: <excerpt>\n<spaces>^\n`, line within the file, caret under the excerpt.
pub fn check_parse_error_shape(text: &str, file: &str, input_lines: usize) -> Result<(), String> {
    check_parse_error_shape_x(text, file, input_lines, true)
}

/// `strict_caret` = the input is valid UTF-8, so byte columns of caret and excerpt are comparable.
pub fn check_parse_error_shape_x(text: &str, file: &str, input_lines: usize, strict_caret: bool) -> Result<(), String> {
    let Some(rest) = text.strip_prefix("parse error: ") else { return Err("does not start with `parse error: `".into()) };
    let lines: Vec<&str> = rest.split('\n').collect();
    // the message itself may not contain a newline except for quoted characters like '\n' (escaped by {:?})
    if lines.len() != 4 || !lines[3].is_empty() {
        return Err(format!("expected 3 lines (message, excerpt, caret), got {:?}", lines));
    }
    let prefix = format!("{}:", file);
    let Some(loc) = lines[1].strip_prefix(&prefix) else { return Err(format!("excerpt line does not start with {:?}", prefix)) };
    let Some((num, excerpt)) = loc.split_once(": ") else { return Err("no `<line>: ` in the excerpt line".into()) };
    let n: usize = num.parse().map_err(|_| format!("line number {:?}", num))?;
    if n == 0 || n > input_lines.max(1) {
        return Err(format!("line {} is outside the input ({} lines)", n, input_lines));
    }
    let caret = lines[2];
    if !caret.ends_with('^') || !caret[..caret.len() - 1].chars().all(|c| c == ' ') {
        return Err(format!("caret line {:?}", caret));
    }
    let col = caret.len() - 1;
    let start = prefix.len() + num.len() + 2;
    // the caret points into the excerpt or just past its end (errors at end of line)
    if strict_caret && (col < start || col > start + excerpt.len() + 3) {
        return Err(format!("caret column {} outside the excerpt columns {}..={}", col, start, start + excerpt.len()));
    }
    Ok(())
}
