//! C20: status rendering helpers, exhaustively over cyclic repetitions of short units of 1-4 byte characters.

use super::*;
use crate::engine::*;
use crate::tape::{fnv_str, Case, Tape};
use serde_json::{json, Value};

const CHARS: [&str; 4] = ["a", "\u{e9}", "\u{20ac}", "\u{1F600}"];
const SECONDS: [usize; 9] = [0, 2, 3, 9, 10, 99, 100, 99_999, 1_000_000];

fn note_for(seconds: usize) -> String {
    if seconds > 2 {
        format!(" ({}s)", seconds)
    } else {
        String::new()
    }
}

/// Predicates on task_message; Ok(true) when the cut position in bytes fell strictly inside a character.
pub fn check_task_message(msg: &str, seconds: usize, cols: usize) -> Result<bool, (String, String)> {
    let (m, s, c) = (msg.to_string(), seconds, cols);
    let r = match guarded(u64::MAX, move || n2::verif::task_message(&m, s, c)) {
        Ran::Done(r) => r,
        Ran::Panic(p, f) => return Err((util::panic_key(&p, &f), format!("task_message({:?}, {}, {}) panicked: {}", msg, seconds, cols, p))),
    };
    let note = note_for(seconds);
    if msg.len() + note.len() < cols {
        if r != format!("{}{}", msg, note) {
            return Err(("short-message-altered".into(), format!("task_message({:?}, {}, {}) = {:?}, expected the message unchanged", msg, seconds, cols, r)));
        }
        return Ok(false);
    }
    let tail = format!("...{}", note);
    let Some(head) = r.strip_suffix(&tail) else { return Err(("no-ellipsis".into(), format!("task_message({:?}, {}, {}) = {:?} does not end with {:?}", msg, seconds, cols, r, tail))) };
    if !msg.starts_with(head) {
        return Err(("not-a-prefix".into(), format!("task_message({:?}, {}, {}) = {:?}: the kept part is not a prefix of the message", msg, seconds, cols, r)));
    }
    if cols >= note.len() + 3 && r.len() > cols {
        return Err(("too-wide".into(), format!("task_message({:?}, {}, {}) = {:?} is {} bytes wide", msg, seconds, cols, r, r.len())));
    }
    let cut = cols.saturating_sub(note.len() + 3);
    Ok(cut < msg.len() && !msg.is_char_boundary(cut))
}

pub fn check_truncate(s: &str, max: usize) -> Result<bool, (String, String)> {
    let (m, mx) = (s.to_string(), max);
    let r = match guarded(u64::MAX, move || n2::verif::truncate(&m, mx).to_string()) {
        Ran::Done(r) => r,
        Ran::Panic(p, f) => return Err((util::panic_key(&p, &f), format!("truncate({:?}, {}) panicked: {}", s, max, p))),
    };
    if !s.starts_with(&r) {
        return Err(("truncate-not-prefix".into(), format!("truncate({:?}, {}) = {:?}", s, max, r)));
    }
    if r.len() > max {
        return Err(("truncate-too-long".into(), format!("truncate({:?}, {}) = {:?} ({} bytes)", s, max, r, r.len())));
    }
    if s.len() <= max && r != s {
        return Err(("truncate-shortens-short".into(), format!("truncate({:?}, {}) = {:?}", s, max, r)));
    }
    if s.len() > max && r.len() + 3 < max {
        return Err(("truncate-cuts-too-much".into(), format!("truncate({:?}, {}) = {:?} ({} bytes)", s, max, r, r.len())));
    }
    Ok(s.len() > max && !s.is_char_boundary(max))
}

pub fn check_bar(counts: [usize; 6], size: usize) -> Result<(), (String, String)> {
    let r = match guarded(u64::MAX, move || n2::verif::progress_bar(counts, size)) {
        Ran::Done(r) => r,
        Ran::Panic(p, f) => return Err((util::panic_key(&p, &f), format!("progress_bar({:?}, {}) panicked: {}", counts, size, p))),
    };
    if r.chars().count() != size {
        return Err(("bar-width".into(), format!("progress_bar({:?}, {}) = {:?} has {} characters", counts, size, r, r.chars().count())));
    }
    // shape =* -* space*
    let t = r.trim_start_matches('=').trim_start_matches('-').trim_start_matches(' ');
    if !t.is_empty() {
        return Err(("bar-shape".into(), format!("progress_bar({:?}, {}) = {:?}", counts, size, r)));
    }
    Ok(())
}

pub struct C20;

fn units() -> Vec<String> {
    // all units of 1..=3 characters over the 4-character alphabet: 4 + 16 + 64 = 84
    let mut v = vec![];
    for l in 1..=3usize {
        for k in 0..4usize.pow(l as u32) {
            let mut s = String::new();
            let mut y = k;
            for _ in 0..l {
                s.push_str(CHARS[y % 4]);
                y /= 4;
            }
            v.push(s);
        }
    }
    v
}

impl C20 {
    fn unit(&self, u: u64, tier: Tier) -> CaseOut {
        let mut out = CaseOut::default();
        let us = units();
        let n_units = us.len() as u64;
        let mut inside = 0u64;
        if u < n_units {
            let unit = &us[u as usize];
            let chars: Vec<char> = unit.chars().collect();
            let widths: Vec<usize> = match tier {
                Tier::Quick => (10..=90).chain([119, 120, 200, 300]).collect(),
                Tier::Thorough => (10..=300).collect(),
            };
            for len in 0..=90usize {
                let msg: String = (0..len).map(|i| chars[i % chars.len()]).collect();
                for &cols in &widths {
                    for &secs in &SECONDS {
                        out.evals += 1;
                        match check_task_message(&msg, secs, cols) {
                            Ok(true) => inside += 1,
                            Ok(false) => {}
                            Err((k, m)) => {
                                out.viols.push(Viol::new("C20", k, m));
                                out.replay = Some(json!({"task_message": [msg, secs, cols]}));
                                return out;
                            }
                        }
                    }
                    if cols >= 2 {
                        out.evals += 1;
                        match check_truncate(&msg, cols - 2) {
                            Ok(true) => inside += 1,
                            Ok(false) => {}
                            Err((k, m)) => {
                                out.viols.push(Viol::new("C20", k, m));
                                out.replay = Some(json!({"truncate": [msg, cols - 2]}));
                                return out;
                            }
                        }
                    }
                }
            }
            out.desc = json!({"unit": unit, "calls": out.evals, "cut_inside_a_character": inside});
        } else {
            // progress bars: all count vectors of {0..6}^6 for one bar size
            let sizes = [1usize, 2, 7, 10, 40];
            let size = sizes[(u - n_units) as usize % sizes.len()];
            for k in 0..7usize.pow(6) {
                let mut c = [0usize; 6];
                let mut y = k;
                for i in 0..6 {
                    c[i] = y % 7;
                    y /= 7;
                }
                out.evals += 1;
                if let Err((key, m)) = check_bar(c, size) {
                    out.viols.push(Viol::new("C20", key, m));
                    out.replay = Some(json!({"bar": [c.to_vec(), size]}));
                    return out;
                }
            }
            inside = 1;
            out.desc = json!({"bar_size": size, "count_vectors": out.evals});
        }
        out.nontrivial = inside > 0;
        out.fp = u;
        out.extra_distinct = inside.saturating_sub(1);
        out
    }

    fn random(&self, case: &Case) -> CaseOut {
        let mut t = Tape::new(&case.main);
        // long strings, lossy-decoded raw bytes, odd widths
        let raw: Vec<u8> = (0..t.below(400)).map(|_| if t.chance(60) { b"a \xc3\xa9\xe2\x82\xac\xf0\x9f\x98\x80\xff\x80\t"[t.below(14)] } else { t.raw() as u8 }).collect();
        let msg = String::from_utf8_lossy(&raw).into_owned();
        let cols = 10 + t.below(291);
        let secs = if t.chance(50) { SECONDS[t.below(SECONDS.len())] } else { t.raw() as usize * (1 + t.below(40)) };
        let mut out = CaseOut { evals: 2, ..Default::default() };
        match check_task_message(&msg, secs, cols) {
            Ok(b) => out.nontrivial = b,
            Err((k, m)) => out.viols.push(Viol::new("C20", k, m)),
        }
        match check_truncate(&msg, cols - 2) {
            Ok(b) => out.nontrivial |= b,
            Err((k, m)) => out.viols.push(Viol::new("C20", k, m)),
        }
        let mut c = [0usize; 6];
        for x in c.iter_mut() {
            *x = if t.chance(30) { 0 } else { t.below(5000) };
        }
        let size = 1 + t.below(120);
        if let Err((k, m)) = check_bar(c, size) {
            out.viols.push(Viol::new("C20", k, m));
        }
        out.fp = fnv_str(&format!("{}|{}|{}|{:?}|{}", msg, cols, secs, c, size));
        out.desc = json!({"message": msg, "cols": cols, "seconds": secs, "counts": c, "bar": size});
        out
    }
}

impl Check for C20 {
    fn id(&self) -> &'static str {
        "C20"
    }
    fn rule(&self) -> String {
        "render helpers called directly: messages = ALL cyclic repetitions (length 0..90 characters) of every unit of <= 3 characters over {a, e-acute (2 bytes), euro (3 bytes), emoji (4 bytes)} x widths 10..90 (+119,120,200,300; thorough: 10..300) x seconds {0,2,3,9,10,99,100,99999,10^6}; truncate with width-2; progress_bar for ALL count vectors {0..6}^6 x sizes {1,2,7,10,40}; plus random long strings, lossy-decoded raw bytes, random counts. Oracle: no panic; short messages unchanged; long ones end with `...`+time note, keep a prefix of the message cut on a character boundary and fit the width (in bytes) whenever the width can hold the note; truncate returns a boundary-aligned prefix within 3 bytes of the limit; the bar has exactly its nominal number of characters in the shape =*-*space*. Non-trivial: the byte cut position falls strictly inside a multi-byte character; distinct by (unit, call)".into()
    }
    fn assumptions(&self) -> Vec<String> {
        vec!["the helpers are reached through cfg-gated wrappers; the surrounding print loop and terminal ioctl are exercised by the pty part of the black-box engine".into()]
    }
    fn exhaustive(&self, _tier: Tier) -> Option<String> {
        Some("all cyclic repetitions up to 90 characters of all units of <= 3 characters over a 4-character alphabet x listed widths x listed seconds; all count vectors {0..6}^6 x 5 bar sizes".into())
    }
    fn parts(&self, tier: Tier) -> Vec<Part> {
        vec![
            Part { name: "enum", kind: PartKind::Enum { units: 84 + 5 } },
            Part { name: "random", kind: PartKind::Random { cases: tier.pick(1_000_000, 10_000_000), main: 450, ops: 0, oplen: 0, sched: 0 } },
            Part { name: "pty", kind: PartKind::Random { cases: tier.pick(32, 320), main: 200, ops: 0, oplen: 0, sched: 0 } },
            Part { name: "pty-long", kind: PartKind::Random { cases: tier.pick(0, 16), main: 200, ops: 0, oplen: 0, sched: 0 } },
        ]
    }
    fn run_unit(&mut self, _part: &str, u: u64, env: &mut Env) -> CaseOut {
        self.unit(u, env.tier)
    }
    fn run_random(&mut self, part: &str, case: &Case, env: &mut Env) -> CaseOut {
        match part {
            "pty" => crate::bb::pty::run_pty_case(case, env, false),
            "pty-long" => crate::bb::pty::run_pty_case(case, env, true),
            _ => self.random(case),
        }
    }
    fn run_replay(&mut self, _part: &str, replay: &Value, _env: &mut Env) -> CaseOut {
        let mut out = CaseOut { evals: 1, ..Default::default() };
        let r = if let Some(a) = replay["task_message"].as_array() {
            check_task_message(a[0].as_str().unwrap_or(""), a[1].as_u64().unwrap_or(0) as usize, a[2].as_u64().unwrap_or(80) as usize).map(|_| ())
        } else if let Some(a) = replay["truncate"].as_array() {
            check_truncate(a[0].as_str().unwrap_or(""), a[1].as_u64().unwrap_or(0) as usize).map(|_| ())
        } else if let Some(a) = replay["bar"].as_array() {
            let mut c = [0usize; 6];
            for (i, x) in a[0].as_array().cloned().unwrap_or_default().iter().enumerate().take(6) {
                c[i] = x.as_u64().unwrap_or(0) as usize;
            }
            check_bar(c, a[1].as_u64().unwrap_or(1) as usize)
        } else {
            Ok(())
        };
        if let Err((k, m)) = r {
            out.viols.push(Viol::new("C20", k, m));
        }
        out.desc = replay.clone();
        out
    }
}
