//! C13: lexical canonicalisation (a) exhaustively over short strings, (b) as graph-node identity.

use super::*;
use crate::engine::*;
use crate::paths::*;
use crate::tape::{fnv_str, Case, Tape};
use serde_json::{json, Value};

const ALPHA: [char; 4] = ['a', '.', '/', '\\'];

pub fn canon(p: &str) -> Ran<String> {
    let s = p.to_string();
    guarded(u64::MAX, move || {
        let mut s = s;
        n2::canon::canonicalize_path(&mut s);
        s
    })
}

/// All statement predicates for one input; Err = (key, message).
pub fn check_one(p: &str) -> Result<bool, (String, String)> {
    let out = match canon(p) {
        Ran::Done(o) => o,
        Ran::Panic(m, f) => return Err((util::panic_key(&m, &f), format!("canonicalize_path({:?}) panicked: {}", p, m))),
    };
    if out.len() > p.len() {
        return Err(("lengthens".into(), format!("{:?} -> {:?} is longer", p, out)));
    }
    if out.is_empty() {
        return Err(("empty-output".into(), format!("{:?} -> empty string", p)));
    }
    match canon(&out) {
        Ran::Done(o2) if o2 == out => {}
        Ran::Done(o2) => return Err(("not-idempotent".into(), format!("{:?} -> {:?} -> {:?}", p, out, o2))),
        Ran::Panic(m, _) => return Err(("panic-on-output".into(), format!("{:?} -> {:?}, canonicalising that panics: {}", p, out, m))),
    }
    if resolve(&out) != resolve(p) {
        return Err(("location-changed".into(), format!("{:?} -> {:?}: {:?} vs {:?}", p, out, resolve(p), resolve(&out))));
    }
    // shape of the output: optional root, then `..`s, then names; no `.`/empty component except a final empty one (trailing separator)
    if out != "." {
        let body = if out.chars().next().map(is_sep).unwrap_or(false) { &out[1..] } else { &out[..] };
        let comps: Vec<&str> = body.split(is_sep).collect();
        let mut seen_name = false;
        for (i, c) in comps.iter().enumerate() {
            let last = i + 1 == comps.len();
            match *c {
                "" if last && (i > 0 || body.is_empty()) => {}
                "" => return Err(("empty-component".into(), format!("{:?} -> {:?} keeps an empty component", p, out))),
                "." => return Err(("dot-component".into(), format!("{:?} -> {:?} keeps a `.` component", p, out))),
                ".." => {
                    if seen_name {
                        return Err(("dotdot-after-name".into(), format!("{:?} -> {:?} keeps `name/..`", p, out)));
                    }
                }
                _ => seen_name = true,
            }
        }
    }
    Ok(out != p)
}

pub struct C13;

impl C13 {
    fn enum_unit(&self, u: u64, maxlen: usize, env: &Env) -> CaseOut {
        // unit u = prefix of 4 symbols (256 units); unit 0 also covers the strings shorter than 4
        let mut out = CaseOut::default();
        let mut prefix = String::new();
        let mut x = u;
        for _ in 0..4 {
            prefix.push(ALPHA[(x % 4) as usize]);
            x /= 4;
        }
        let mut inputs: Vec<String> = vec![];
        if u == 0 {
            for l in 1..4usize {
                for k in 0..4u64.pow(l as u32) {
                    let mut s = String::new();
                    let mut y = k;
                    for _ in 0..l {
                        s.push(ALPHA[(y % 4) as usize]);
                        y /= 4;
                    }
                    inputs.push(s);
                }
            }
        }
        let mut changed = 0u64;
        let mut run = |s: &str, out: &mut CaseOut| -> bool {
            out.evals += 1;
            if env.replaying && !survives(|| {
                let _ = canon(s);
            }) {
                out.viols.push(Viol::new("C13", "process-death", format!("canonicalize_path({:?}) kills the process", s)));
                out.replay = Some(json!({"path": s}));
                return false;
            }
            match check_one(s) {
                Ok(c) => {
                    if c {
                        changed += 1;
                    }
                    true
                }
                Err((k, m)) => {
                    out.viols.push(Viol::new("C13", k, m));
                    out.replay = Some(json!({"path": s}));
                    false
                }
            }
        };
        for s in &inputs {
            if !run(s, &mut out) {
                return out;
            }
        }
        for l in 0..=(maxlen - 4) {
            for k in 0..4u64.pow(l as u32) {
                let mut s = prefix.clone();
                let mut y = k;
                for _ in 0..l {
                    s.push(ALPHA[(y % 4) as usize]);
                    y /= 4;
                }
                if !run(&s, &mut out) {
                    return out;
                }
            }
        }
        out.nontrivial = changed > 0;
        out.fp = u;
        // every changed input is a distinct non-trivial case; report their number through synthetic fingerprints
        out.extra_distinct = changed.saturating_sub(1);
        out.desc = json!({"prefix": prefix, "inputs": out.evals, "changed_by_canonicalisation": changed});
        out
    }

    fn random_long(&self, case: &Case) -> CaseOut {
        let mut t = Tape::new(&case.main);
        // (names that look like drive prefixes, home directories or URL escapes are ordinary names to a lexical rule)
        let names = ["a", "bc", "\u{e9}", "x.y", "..a", "...", "\u{20ac}\u{20ac}", ".hidden", "d", "c:", "C:", ":", "a:b", "~", "%2e%2e", " ", "-", "@x"];
        let n = if t.chance(40) { 1 + t.below(6) } else { 1 + t.below(60) };
        let mut s = String::new();
        if t.chance(25) {
            s.push(*t.pick(&['/', '\\']));
        }
        let mut pending: i64 = 0;
        for i in 0..n {
            let c = match t.weighted(&[6, 2, 3, 1]) {
                0 => {
                    pending += 1;
                    names[t.below(names.len())]
                }
                1 => ".",
                2 => {
                    pending = (pending - 1).max(0);
                    ".."
                }
                _ => "",
            };
            if pending > 60 {
                break;
            }
            s.push_str(c);
            if i + 1 < n || t.chance(20) {
                s.push(if t.chance(85) { '/' } else { '\\' });
            }
        }
        if s.is_empty() {
            s.push('a');
        }
        let mut out = CaseOut { evals: 1, ..Default::default() };
        match check_one(&s) {
            Ok(c) => out.nontrivial = c,
            Err((k, m)) => out.viols.push(Viol::new("C13", k, m)),
        }
        out.fp = fnv_str(&s);
        out.desc = json!({"path": s});
        out
    }

    /// (b): two spellings of one location are one graph node -- in the manifest, as a command-line target, as a discovered dependency.
    fn pairs(&self, case: &Case, env: &Env) -> CaseOut {
        use crate::sim::exec::InvSpec;
        use crate::sim::hist::*;
        use crate::sim::model::*;
        use crate::sim::world::*;
        use crate::tape::OwnedTape;
        let mut t = Tape::new(&case.main);
        util::fresh_cwd(&env.dir.join("p"));
        // base path of 1-3 ordinary components
        let comps = ["gen", "d", "x.y", "\u{e9}", "sub"];
        let nc = t.below(3);
        let mut dirs: Vec<&str> = (0..nc).map(|_| comps[t.below(comps.len())]).collect();
        dirs.dedup();
        let mk = |dirs: &[&str], leaf: &str| if dirs.is_empty() { leaf.to_string() } else { format!("{}/{}", dirs.join("/"), leaf) };
        let hdr = mk(&dirs, "h.h");
        let mid = mk(&dirs, "mid.o");
        let respell_deep = |p: &str, t: &mut Tape| -> String {
            // tail-preserving rewrites in front of any component (never changing the final component)
            let parts: Vec<&str> = p.split('/').collect();
            let mut o = String::new();
            for (i, c) in parts.iter().enumerate() {
                match t.weighted(&[5, 2, 2, 2]) {
                    0 => {}
                    1 => o.push_str("./"),
                    2 => o.push_str("zz/../"),
                    _ => {
                        if i > 0 {
                            o.push('/');
                        } else {
                            o.push_str("./");
                        }
                    }
                }
                o.push_str(c);
                if i + 1 < parts.len() {
                    o.push('/');
                }
            }
            o
        };
        let mid_in = respell_deep(&mid, &mut t);
        let hdr_reported = respell_deep(&hdr, &mut t);
        let target = respell_deep("final", &mut t);
        let mid_target = respell_deep(&mid, &mut t);
        // a path may also be put together from variables, the pieces meeting anywhere (between two separators, say)
        let mut vars = String::new();
        let mut nvars = 0;
        let mut assembled = false;
        let mut assemble = |p: &str, t: &mut Tape| -> String {
            let mode = t.weighted(&[4, 1, 1, 1]);
            let mut cuts: Vec<usize> = vec![];
            for (i, _) in p.char_indices().skip(1) {
                cuts.push(i);
                let b = p.as_bytes();
                if b[i] == b'/' || b[i - 1] == b'/' || b[i] == b'.' {
                    cuts.push(i);
                    cuts.push(i);
                }
            }
            if mode == 0 || cuts.is_empty() {
                return esc(p);
            }
            assembled = true;
            let at = cuts[t.below(cuts.len())];
            let (a, b) = p.split_at(at);
            let mut var = |val: &str| {
                nvars += 1;
                vars.push_str(&format!("pv{} = {}\n", nvars, val));
                format!("${{pv{}}}", nvars)
            };
            match mode {
                1 => format!("{}{}", var(a), esc(b)),
                2 => format!("{}{}", esc(a), var(b)),
                _ => {
                    let x = var(a);
                    let y = var(b);
                    format!("{}{}", x, y)
                }
            }
        };
        let mid_text = assemble(&mid, &mut t);
        let mid_in_text = assemble(&mid_in, &mut t);
        // manifest written by hand so that the consumer uses another spelling than the producer
        let manifest = format!(
            "{}rule r0\n  command = cmd0v0 $in -- $out\nrule r1\n  command = cmd1v0 $in -- $out\n  depfile = final.d\nbuild {}: r0 s0\nbuild final: r1 {}\n",
            vars, mid_text, mid_in_text
        );
        let s0 = Step { uid: 0, outs: vec![mid.clone()], nexp: 1, ins: vec!["s0".into()], imp: vec![], oo: vec![], val: vec![], phony: false, ver: 0, pool: None, rsp: None, deps: 0, restat: false, regen: false, subgen: false };
        let s1 = Step { uid: 1, outs: vec!["final".into()], nexp: 1, ins: vec![mid.clone()], imp: vec![], oo: vec![], val: vec![], phony: false, ver: 0, pool: None, rsp: None, deps: 1, restat: false, regen: false, subgen: false };
        let proj = Proj { manifest: "build.ninja".into(), sources: vec!["s0".into(), hdr.clone()], steps: vec![s0, s1], pools: vec![], order: vec![0, 1], defaults: vec![], builddir: None, style: 0 };
        let mut world = World::new(proj);
        world.write_source("s0");
        world.write_source(&hdr);
        world.includes.insert(1, vec![hdr.clone()]);
        world.clock.write("build.ninja", manifest.as_bytes());
        let mut out = CaseOut { evals: 0, ..Default::default() };
        let mut stats = Stats::default();
        let mut sched = OwnedTape::new(case.sched.clone());
        let mut trace = vec![];
        // round 0: build the alternatively spelled intermediate target; round 1: everything; round 2: edit the header
        // (reported under another spelling), the consumer must re-run; round 3: nothing to do
        for round in 0..4 {
            let targets = match round {
                0 => vec![mid.clone()],
                _ => vec![],
            };
            if round == 2 {
                world.write_source(&hdr);
            }
            // spelling of command-line targets is chosen by InvSpec.spell through respell(); use our own deep respelling by
            // writing the name directly
            let mut spec = InvSpec { j: 2, targets, spell: 0, abs_reports: true, ..InvSpec::default() };
            if round == 0 {
                spec.targets = vec![mid.clone()];
                spec.spell = 4 * t.below(3) + [1, 2, 3][t.below(3)];
            }
            let _ = (&target, &mid_target);
            let mut inv = invoke(world, spec, sched);
            out.evals += 1;
            // the scripted command reports the header under the alternative spelling
            let mut v = judge(&mut inv, None, &std::collections::BTreeSet::new(), &mut stats);
            let started: Vec<usize> = inv.sh.starts.iter().map(|s| s.uid).collect();
            match round {
                0 => {
                    if !matches!(inv.res, Res::Exit(0)) || started != vec![0] {
                        v.push(Viol::new("C13", "target-spelling", format!("requesting the intermediate under another spelling: result {:?}, started {:?} (expected exactly its producer)", inv.res, started)));
                    }
                }
                1 => {
                    if !matches!(inv.res, Res::Exit(0)) || started != vec![1] {
                        v.push(Viol::new("C13", "manifest-spelling", format!("consumer spells its input {:?}, producer writes {:?}: result {:?}, started {:?} (expected the consumer only)", mid_in, mid, inv.res, started)));
                    }
                }
                2 => {
                    if !started.contains(&1) {
                        v.push(Viol::new("C13", "depfile-spelling", format!("the header was reported as {:?} and edited as {:?}, but the step did not re-run", hdr_reported, hdr)));
                    }
                }
                _ => {
                    if !started.is_empty() {
                        v.push(Viol::new("C13", "rebuild-not-noop", format!("steps {:?} ran although nothing changed", started)));
                    }
                }
            }
            if inv.sh.n2steps.len() == 2 {
                let a = &inv.sh.n2steps;
                let prod = a.iter().find(|s| s.outs.len() == 1 && s.outs[0] != "final");
                let cons = a.iter().find(|s| s.outs == vec!["final".to_string()]);
                if let (Some(p), Some(c)) = (prod, cons) {
                    if c.ins.first() != p.outs.first() {
                        v.push(Viol::new("C13", "two-nodes", format!("producer output {:?} and consumer input {:?} are different graph nodes", p.outs, c.ins)));
                    }
                }
            }
            trace.push(json!({"round": round, "result": format!("{:?}", inv.res), "started": started}));
            world = inv.sh.world;
            sched = inv.sh.tape;
            // C13 is decided by its own predicates; model violations of other properties are kept as such
            let stop = v.iter().any(|x| x.prop == "C13");
            out.viols.extend(v);
            if stop {
                break;
            }
        }
        out.nontrivial = mid_in != mid || hdr_reported != hdr;
        if assembled {
            out.classes.push("path-assembled-from-variables".into());
        }
        out.fp = fnv_str(&format!("{}|{}|{}", manifest, hdr_reported, mid_target));
        out.desc = json!({"manifest": manifest, "header_reported_as": hdr_reported, "header": hdr, "history": trace});
        let _ = std::env::set_current_dir("/");
        out
    }
}

impl C13 {
    /// The manifest named by `-f` in another spelling: histories of a self-regenerating `alt.ninja`; the
    /// manifest's own build statement must be found (and the file brought up to date) whatever the spelling.
    fn flag(&self, case: &Case, env: &Env) -> CaseOut {
        use crate::sim::hist::*;
        use crate::sim::model::GenOpts;
        let base = Profile::default();
        let prof = Profile {
            gen: GenOpts { regen_pct: 100, alt_manifest_pct: 100, subgen_pct: 0, max_steps: 4, ..GenOpts::default() },
            edits: [1, 2, 1, 0, 0, 0, 1, 0, 0, 5, 1, 2, 2, 1],
            fault_pct: 0,
            kill_pct: 0,
            interrupt_pct: 0,
            restat_pct: 0,
            unknown_target_pct: 0,
            ..base
        };
        let out = run_history(case, &prof, &env.dir, "C13", &env.known);
        let nontrivial = out.stats.classes.contains("reload");
        let mut classes: Vec<String> = vec!["flag-spelling".into()];
        if nontrivial {
            classes.push("flag-spelling:regenerated".into());
        }
        CaseOut { viols: out.viols, nontrivial, fp: fnv_str(&out.fp_text), classes, desc: out.desc, evals: out.stats.invocations.max(1), ..Default::default() }
    }
}

impl Check for C13 {
    fn id(&self) -> &'static str {
        "C13"
    }
    fn rule(&self) -> String {
        "(a) ALL strings of length 1..10 (quick) / 1..12 (thorough) over {a . / \\} plus random longer paths with UTF-8 names and up to 60 pending components; predicates per input: idempotent, not longer, no `.`/empty/`name/..` component left, same location as the input by an independent component-stack resolver, no panic. (b) random pairs of spellings of one location (tail-preserving insertions of ./, x/../ and doubled separators) used as producer output vs consumer input, command-line target, and reported depfile entry: one graph node, the producer is built for the alternative target spelling, editing the alternatively reported header re-runs the step. Non-trivial: inputs changed by canonicalisation / pairs whose spellings differ; distinct by input".into()
    }
    fn assumptions(&self) -> Vec<String> {
        vec!["paths with more than 60 pending components are outside this property (they belong to C12, listed finding F2)".into(), "rewrites never touch the final component or a trailing separator and never change a separator character".into()]
    }
    fn exhaustive(&self, tier: Tier) -> Option<String> {
        Some(format!("all non-empty strings up to length {} over {{a . / \\}}", tier.pick(10, 12)))
    }
    fn repeats(&self) -> usize {
        2
    }
    fn parts(&self, tier: Tier) -> Vec<Part> {
        vec![
            Part { name: "enum", kind: PartKind::Enum { units: 256 } },
            Part { name: "long", kind: PartKind::Random { cases: tier.pick(600_000, 6_000_000), main: 200, ops: 0, oplen: 0, sched: 0 } },
            Part { name: "pairs", kind: PartKind::Random { cases: tier.pick(120_000, 1_200_000), main: 60, ops: 0, oplen: 0, sched: 20 } },
            Part { name: "bb-deps", kind: PartKind::Random { cases: tier.pick(64, 1000), main: 20, ops: 0, oplen: 0, sched: 0 } },
            Part { name: "flag", kind: PartKind::Random { cases: tier.pick(12_000, 120_000), main: 100, ops: 5, oplen: 40, sched: 30 } },
        ]
    }
    fn run_unit(&mut self, _part: &str, u: u64, env: &mut Env) -> CaseOut {
        self.enum_unit(u, env.tier.pick(10, 12), env)
    }
    fn run_random(&mut self, part: &str, case: &Case, env: &mut Env) -> CaseOut {
        match part {
            "bb-deps" => crate::bb::deps::run_deps_case(case, env, "C13"),
            "long" => self.random_long(case),
            "flag" => self.flag(case, env),
            _ => self.pairs(case, env),
        }
    }
    fn run_replay(&mut self, _part: &str, replay: &Value, _env: &mut Env) -> CaseOut {
        let p = match replay["raw_bytes"].as_array() {
            Some(a) => String::from_utf8_lossy(&a.iter().map(|x| x.as_u64().unwrap_or(0) as u8).collect::<Vec<u8>>()).into_owned(),
            None => replay["path"].as_str().unwrap_or("a").to_string(),
        };
        let mut out = CaseOut { evals: 1, ..Default::default() };
        if !survives(|| {
            let _ = canon(&p);
        }) {
            out.viols.push(Viol::new("C13", "process-death", format!("canonicalize_path({:?}) kills the process", p)));
            return out;
        }
        if let Err((k, m)) = check_one(&p) {
            out.viols.push(Viol::new("C13", k, m));
        }
        out.desc = json!({"path": p});
        out
    }
}
