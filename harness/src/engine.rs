//! Orchestrator / worker / replay machinery shared by all checks.

use crate::tape::Case;
use proptest::prelude::*;
use proptest::test_runner::{Config, RngAlgorithm, RngSeed, TestCaseError, TestError, TestRunner};
use serde::{Deserialize, Serialize};
use serde_json::{json, Value};
use std::collections::{BTreeMap, BTreeSet};
use std::path::{Path, PathBuf};

#[derive(Clone, Copy, PartialEq, Debug)]
pub enum Tier {
    Quick,
    Thorough,
}
impl Tier {
    pub fn name(self) -> &'static str {
        match self {
            Tier::Quick => "quick",
            Tier::Thorough => "thorough",
        }
    }
    pub fn pick<T>(self, q: T, t: T) -> T {
        match self {
            Tier::Quick => q,
            Tier::Thorough => t,
        }
    }
}

#[derive(Clone, Debug, Serialize, Deserialize)]
pub struct Viol {
    /// Property the violated oracle belongs to.
    pub prop: String,
    /// Stable signature of the failure (used to match known findings).
    pub key: String,
    pub msg: String,
}
impl Viol {
    pub fn new(prop: &str, key: impl Into<String>, msg: impl Into<String>) -> Viol {
        // messages may quote text that n2 produced from unvalidated bytes
        let clean = |s: String| String::from_utf8_lossy(s.as_bytes()).into_owned();
        Viol { prop: prop.to_string(), key: clean(key.into()), msg: clean(msg.into()) }
    }
}

#[derive(Default)]
pub struct CaseOut {
    pub viols: Vec<Viol>,
    pub nontrivial: bool,
    /// Fingerprint of the canonicalised case (only meaningful when nontrivial).
    pub fp: u64,
    pub classes: Vec<String>,
    /// Decoded, human-readable form of the case.
    pub desc: Value,
    /// Number of elementary evaluations in this case (>= 1).
    pub evals: u64,
    /// Inputs inside this case that were skipped because they are listed findings.
    pub excluded_known: u64,
    /// Override of what is stored as replay for a violation (default: the Case / unit).
    pub replay: Option<Value>,
    /// For enumerated units: additional distinct non-trivial fingerprints found inside the unit.
    pub extra_fps: Vec<u64>,
    /// Invocations of the real binary whose behaviour agreed with the reference model.
    pub validated: u64,
    /// Number of further distinct non-trivial inputs inside an enumerated unit (an enumeration never repeats an
    /// input, so they are distinct by construction and need no fingerprints).
    pub extra_distinct: u64,
}

#[derive(Clone, Debug)]
pub enum PartKind {
    /// proptest-generated tapes.
    Random { cases: u64, main: usize, ops: usize, oplen: usize, sched: usize },
    /// Plain enumeration of `units` independent units (no RNG).
    Enum { units: u64 },
}
#[derive(Clone, Debug)]
pub struct Part {
    pub name: &'static str,
    pub kind: PartKind,
}

pub struct Env {
    pub dir: PathBuf,
    pub tier: Tier,
    pub replaying: bool,
    pub known: Vec<Finding>,
}

pub trait Check {
    fn id(&self) -> &'static str;
    fn level(&self) -> &'static str {
        "exploration"
    }
    fn rule(&self) -> String;
    fn assumptions(&self) -> Vec<String> {
        vec![]
    }
    fn exhaustive(&self, _tier: Tier) -> Option<String> {
        None
    }
    fn parts(&self, tier: Tier) -> Vec<Part>;
    /// How often a failing candidate is re-evaluated while shrinking / replaying
    /// (n2 iterates a randomly keyed HashSet, so traces differ between runs).
    fn repeats(&self) -> usize {
        1
    }
    /// Upper bound on proptest's shrinking steps (expensive cases want fewer).
    fn max_shrink_iters(&self) -> u32 {
        4000
    }
    /// Per part: parts that run the real binary (names starting with `bb-` or `pty`) shrink only a little.
    fn max_shrink_iters_for(&self, part: &str) -> u32 {
        if part.starts_with("bb-") || part.starts_with("pty") {
            self.max_shrink_iters().min(40)
        } else if part == "crash-big" {
            // one evaluation of such a case replays a long history hundreds of times
            self.max_shrink_iters().min(6)
        } else {
            self.max_shrink_iters()
        }
    }
    fn run_random(&mut self, _part: &str, _case: &Case, _env: &mut Env) -> CaseOut {
        unimplemented!()
    }
    fn run_unit(&mut self, _part: &str, _index: u64, _env: &mut Env) -> CaseOut {
        unimplemented!()
    }
    /// Re-run a stored replay value that is neither a Case nor a unit index.
    fn run_replay(&mut self, _part: &str, _replay: &Value, _env: &mut Env) -> CaseOut {
        unimplemented!()
    }
    /// Pinned reproductions of listed open findings: (finding key, part, replay value).
    fn pinned(&self) -> Vec<(String, &'static str, Value)> {
        vec![]
    }
}

// ---------------------------------------------------------------------------------------------
// known findings

#[derive(Clone, Debug)]
pub struct Finding {
    pub open: bool,
    pub prop: String,
    pub key: String,
    pub what: String,
}

pub fn verif_root() -> PathBuf {
    std::env::var("VERIF_ROOT").map(PathBuf::from).unwrap_or_else(|_| PathBuf::from("/verif"))
}

/// Lines: `open: property=<id> key=<key> <what fails>` / `fixed: property=<id> <commit> <what failed>`.
pub fn load_findings() -> Vec<Finding> {
    let text = std::fs::read_to_string(verif_root().join("known_findings.txt")).unwrap_or_default();
    let mut out = vec![];
    for line in text.lines() {
        let line = line.trim();
        let (open, rest) = if let Some(r) = line.strip_prefix("open:") {
            (true, r.trim())
        } else if let Some(r) = line.strip_prefix("fixed:") {
            (false, r.trim())
        } else {
            continue;
        };
        let mut it = rest.splitn(3, ' ');
        let prop = it.next().unwrap_or("").strip_prefix("property=").unwrap_or("").to_string();
        let second = it.next().unwrap_or("").to_string();
        let what = it.next().unwrap_or("").to_string();
        let key = second.strip_prefix("key=").unwrap_or(&second).to_string();
        out.push(Finding { open, prop, key, what });
    }
    out
}

pub fn is_known(known: &[Finding], v: &Viol) -> bool {
    known.iter().any(|f| f.open && f.prop == v.prop && f.key == v.key)
}

// ---------------------------------------------------------------------------------------------
// worker

#[derive(Default, Serialize, Deserialize)]
pub struct WorkerResult {
    pub evaluations: u64,
    pub cases: u64,
    pub nontrivial_fps: Vec<u64>,
    pub classes: BTreeMap<String, u64>,
    pub samples: Vec<Value>,
    pub excluded_known: u64,
    #[serde(default)]
    pub validated: u64,
    #[serde(default)]
    pub extra_distinct: u64,
    pub known_hits: BTreeMap<String, u64>,
    pub other_property_viols: BTreeMap<String, u64>,
    /// (part, key, msg, replay value)
    pub violations: Vec<(String, String, String, Value)>,
    #[serde(default)]
    pub infra: Vec<String>,
    pub completed: bool,
}

fn strategy(main: usize, ops: usize, oplen: usize, sched: usize) -> impl Strategy<Value = Case> {
    (
        prop::collection::vec(any::<u16>(), main / 2..=main),
        prop::collection::vec(prop::collection::vec(any::<u16>(), 0..=oplen), 0..=ops),
        prop::collection::vec(any::<u16>(), 0..=sched),
    )
        .prop_map(|(main, ops, sched)| Case { main, ops, sched })
}

struct Acc<'a> {
    res: &'a mut WorkerResult,
    fps: BTreeSet<u64>,
    id: String,
    sample_budget: usize,
}
impl<'a> Acc<'a> {
    /// Returns the first violation of this property that is not a listed finding.
    fn absorb(&mut self, out: &CaseOut, known: &[Finding], replay_default: &Value) -> Option<Viol> {
        self.res.evaluations += out.evals.max(1);
        self.res.cases += 1;
        self.res.excluded_known += out.excluded_known;
        self.res.validated += out.validated;
        self.res.extra_distinct += out.extra_distinct;
        if out.nontrivial {
            self.fps.insert(out.fp);
        }
        self.fps.extend(out.extra_fps.iter().copied());
        for c in &out.classes {
            *self.res.classes.entry(c.clone()).or_default() += 1;
        }
        if out.nontrivial && self.res.samples.len() < self.sample_budget && !out.desc.is_null() {
            self.res.samples.push(out.desc.clone());
        }
        let mut first = None;
        for v in &out.viols {
            if v.prop == "INFRA" {
                if self.res.infra.len() < 5 {
                    self.res.infra.push(v.msg.clone());
                }
                continue;
            }
            if v.prop != self.id {
                *self.res.other_property_viols.entry(format!("{}:{}", v.prop, v.key)).or_default() += 1;
                continue;
            }
            if is_known(known, v) {
                *self.res.known_hits.entry(v.key.clone()).or_default() += 1;
                continue;
            }
            if first.is_none() {
                first = Some(v.clone());
            }
        }
        let _ = replay_default;
        first
    }
}

fn mix(seed: u64, a: u64, b: u64) -> [u8; 32] {
    let mut s = [0u8; 32];
    let mut x = seed ^ 0x9E3779B97F4A7C15u64.wrapping_mul(a + 1) ^ 0xC2B2AE3D27D4EB4Fu64.wrapping_mul(b + 1);
    for chunk in s.chunks_mut(8) {
        x ^= x << 13;
        x ^= x >> 7;
        x ^= x << 17;
        x = x.wrapping_mul(0x2545F4914F6CDD1D);
        chunk.copy_from_slice(&x.to_le_bytes());
    }
    s
}

pub fn first_unknown(out: &CaseOut, id: &str, known: &[Finding]) -> Option<Viol> {
    out.viols.iter().find(|v| v.prop == id && !is_known(known, v)).cloned()
}

pub fn run_worker(check: &mut dyn Check, tier: Tier, seed: u64, idx: u64, nworkers: u64, outdir: &Path) -> WorkerResult {
    let mut res = WorkerResult::default();
    let dir = scratch_base().join(format!("w{}", idx));
    let _ = std::fs::remove_dir_all(&dir);
    std::fs::create_dir_all(&dir).unwrap();
    let mut env = Env { dir: dir.clone(), tier, replaying: false, known: load_findings() };
    let known = env.known.clone();
    let inflight = outdir.join(format!("w{}.inflight", idx));
    let id = check.id().to_string();
    let mut acc = Acc { res: &mut res, fps: BTreeSet::new(), id: id.clone(), sample_budget: 2 };
    let parts = check.parts(tier);
    // development aid: N2CHECK_ONLY_PARTS=a,b restricts a run to some parts (never set by ./check)
    let only: Option<Vec<String>> = std::env::var("N2CHECK_ONLY_PARTS").ok().map(|s| s.split(',').map(|x| x.to_string()).collect());
    for (pi, part) in parts.iter().enumerate() {
        if only.as_ref().map(|o| !o.iter().any(|x| x == part.name)).unwrap_or(false) {
            continue;
        }
        match part.kind {
            PartKind::Random { cases, main, ops, oplen, sched } => {
                let mine = cases / nworkers + if idx < cases % nworkers { 1 } else { 0 };
                if mine == 0 {
                    continue;
                }
                let config = Config {
                    cases: mine as u32,
                    failure_persistence: None,
                    rng_algorithm: RngAlgorithm::ChaCha,
                    rng_seed: RngSeed::Fixed(0),
                    max_shrink_iters: check.max_shrink_iters_for(part.name),
                    max_global_rejects: 1,
                    ..Config::default()
                };
                let rng = proptest::test_runner::TestRng::from_seed(RngAlgorithm::ChaCha, &mix(seed, pi as u64, idx));
                let mut runner = TestRunner::new_with_rng(config, rng);
                let repeats = check.repeats();
                let st = std::cell::RefCell::new((&mut *check, &mut env, &mut acc, false));
                let r = runner.run(&strategy(main, ops, oplen, sched), |case| {
                    let mut g = st.borrow_mut();
                    let (check, env, acc, failed) = &mut *g;
                    if !*failed {
                        let _ = std::fs::write(&inflight, serde_json::to_vec(&json!({"part": part.name, "replay": &case})).unwrap());
                        let out = check.run_random(part.name, &case, env);
                        let cv = Value::Null;
                        if let Some(v) = acc.absorb(&out, &known, &cv) {
                            *failed = true;
                            return Err(TestCaseError::fail(format!("{}\u{1}{}", v.key, v.msg)));
                        }
                        Ok(())
                    } else {
                        // shrinking: no counting; repeat to be robust against n2's own nondeterminism
                        for _ in 0..repeats {
                            let out = check.run_random(part.name, &case, env);
                            if let Some(v) = first_unknown(&out, &id, &known) {
                                return Err(TestCaseError::fail(format!("{}\u{1}{}", v.key, v.msg)));
                            }
                        }
                        Ok(())
                    }
                });
                drop(st);
                match r {
                    Ok(()) => {}
                    Err(TestError::Fail(reason, case)) => {
                        let reason = reason.message().to_string();
                        let (key, msg) = reason.split_once('\u{1}').unwrap_or(("?", &reason));
                        env.replaying = true;
                        let mut desc = Value::Null;
                        let mut replay = serde_json::to_value(&case).unwrap();
                        for _ in 0..repeats.max(1) * 4 {
                            let out = check.run_random(part.name, &case, &mut env);
                            if first_unknown(&out, &id, &known).is_some() {
                                desc = out.desc;
                                if let Some(r) = out.replay {
                                    replay = r;
                                }
                                break;
                            }
                        }
                        env.replaying = false;
                        acc.res.violations.push((part.name.to_string(), key.to_string(), msg.to_string(), json!({"replay": replay, "desc": desc})));
                    }
                    Err(TestError::Abort(reason)) => {
                        eprintln!("n2check: proptest aborted: {}", reason.message());
                    }
                }
            }
            PartKind::Enum { units } => {
                let mut u = idx;
                while u < units {
                    let _ = std::fs::write(&inflight, serde_json::to_vec(&json!({"part": part.name, "replay": u})).unwrap());
                    let out = check.run_unit(part.name, u, &mut env);
                    let uv = json!(u);
                    if let Some(v) = acc.absorb(&out, &known, &uv) {
                        let replay = out.replay.clone().unwrap_or(uv);
                        acc.res.violations.push((part.name.to_string(), v.key, v.msg, json!({"replay": replay, "desc": out.desc})));
                        break;
                    }
                    u += nworkers;
                }
            }
        }
        if !acc.res.violations.is_empty() {
            break;
        }
    }
    let fps = std::mem::take(&mut acc.fps);
    drop(acc);
    res.nontrivial_fps = fps.into_iter().collect();
    res.completed = true;
    let _ = std::fs::remove_file(&inflight);
    let _ = std::fs::remove_dir_all(&dir);
    res
}

pub fn scratch_base() -> PathBuf {
    let base = if Path::new("/dev/shm").is_dir() { PathBuf::from("/dev/shm") } else { std::env::temp_dir() };
    let pid = std::env::var("N2CHECK_RUN").unwrap_or_else(|_| std::process::id().to_string());
    base.join(format!("n2verif.{}", pid))
}

// ---------------------------------------------------------------------------------------------
// replay of one stored case

pub fn replay_value(check: &mut dyn Check, part: &str, replay: &Value, env: &mut Env) -> CaseOut {
    let kind = check.parts(Tier::Thorough).into_iter().chain(check.parts(Tier::Quick)).find(|p| p.name == part).map(|p| p.kind);
    if let Some(PartKind::Random { .. }) = kind {
        if let Ok(case) = serde_json::from_value::<Case>(replay.clone()) {
            return check.run_random(part, &case, env);
        }
    }
    if let (Some(PartKind::Enum { .. }), Some(u)) = (&kind, replay.as_u64()) {
        return check.run_unit(part, u, env);
    }
    check.run_replay(part, replay, env)
}

/// Returns exit code.
pub fn run_replay_file(check: &mut dyn Check, path: &Path) -> i32 {
    let text = match std::fs::read(path) {
        Ok(t) => String::from_utf8_lossy(&t).into_owned(),
        Err(e) => {
            eprintln!("n2check: cannot read {}: {}", path.display(), e);
            return 2;
        }
    };
    let v: Value = match serde_json::from_str(&text) {
        Ok(v) => v,
        Err(_) => {
            // not one of our replay files: a raw input (e.g. a libFuzzer artifact)
            json!({"part": "raw", "replay": {"raw_bytes": std::fs::read(path).unwrap_or_default()}})
        }
    };
    let part = v["part"].as_str().unwrap_or("").to_string();
    let dir = scratch_base().join("replay");
    let _ = std::fs::remove_dir_all(&dir);
    std::fs::create_dir_all(&dir).unwrap();
    let mut env = Env { dir: dir.clone(), tier: Tier::Quick, replaying: true, known: load_findings() };
    let known = env.known.clone();
    let id = check.id().to_string();
    let n = check.repeats().max(1) * 8;
    let mut code = 0;
    for _ in 0..n {
        let out = replay_value(check, &part, &v["replay"], &mut env);
        let mut known_seen = false;
        for viol in &out.viols {
            if viol.prop == id && is_known(&known, viol) {
                println!("KNOWN-FINDING: property={} {}", id, viol.msg);
                known_seen = true;
            }
        }
        if let Some(viol) = first_unknown(&out, &id, &known) {
            println!("violated: {} [{}]", viol.msg, viol.key);
            println!("case: {}", serde_json::to_string_pretty(&out.desc).unwrap_or_default());
            println!("VIOLATION property={} replay={}", id, path.display());
            code = 1;
            break;
        }
        if known_seen {
            break;
        }
    }
    let _ = std::fs::remove_dir_all(scratch_base());
    if code == 0 {
        println!("replay: property {} held on {}", id, path.display());
    }
    code
}

// ---------------------------------------------------------------------------------------------
// orchestrator

pub fn nworkers() -> u64 {
    let n = std::thread::available_parallelism().map(|n| n.get()).unwrap_or(4) as u64;
    std::env::var("VERIF_JOBS").ok().and_then(|s| s.parse().ok()).unwrap_or(n.min(16)).max(1)
}

pub fn orchestrate(check: &mut dyn Check, tier: Tier, seed: u64) -> i32 {
    let t0 = std::time::Instant::now();
    let id = check.id();
    let root = verif_root();
    let run_tag = format!("{}", std::process::id());
    std::env::set_var("N2CHECK_RUN", &run_tag);
    let base = scratch_base();
    let _ = std::fs::remove_dir_all(&base);
    std::fs::create_dir_all(&base).unwrap();
    let outdir = base.join("results");
    std::fs::create_dir_all(&outdir).unwrap();
    let exe = std::env::current_exe().unwrap();
    let n = nworkers();
    let known = load_findings();

    // 1. regression corpus: stored replays for this property are re-run first (in-process children)
    let mut violations: Vec<(String, String, String, Value)> = vec![];
    let mut inconclusive: Vec<String> = vec![];
    let regress_dir = root.join("regress").join(id);
    let mut regress_run = 0u64;
    if let Ok(rd) = std::fs::read_dir(&regress_dir) {
        let mut files: Vec<PathBuf> = rd.filter_map(|e| e.ok()).map(|e| e.path()).filter(|p| p.extension().map(|e| e == "json").unwrap_or(false)).collect();
        files.sort();
        for f in files {
            regress_run += 1;
            let st = std::process::Command::new(&exe).args(["replay", id]).arg(&f).env("N2CHECK_RUN", format!("{}r", run_tag)).output();
            match st {
                Ok(o) if o.status.code() == Some(0) => {}
                Ok(o) if o.status.code() == Some(1) || o.status.code().is_none() => {
                    let text = String::from_utf8_lossy(&o.stdout).to_string();
                    let msg = text.lines().find(|l| l.starts_with("violated:")).unwrap_or("regression case failed (or worker died)").to_string();
                    let v: Value = std::fs::read_to_string(&f).ok().and_then(|t| serde_json::from_str(&t).ok()).unwrap_or(Value::Null);
                    violations.push((v["part"].as_str().unwrap_or("").to_string(), "regress".into(), format!("{} ({})", msg, f.display()), json!({"replay": v["replay"], "desc": v["desc"], "file": f.display().to_string()})));
                }
                other => inconclusive.push(format!("regress replay {}: {:?}", f.display(), other.map(|o| o.status))),
            }
        }
    }

    // 2. workers
    let mut children = vec![];
    for idx in 0..n {
        let child = std::process::Command::new(&exe)
            .args(["worker", id, tier.name(), &seed.to_string(), &idx.to_string(), &n.to_string()])
            .arg(&outdir)
            .env("N2CHECK_RUN", &run_tag)
            .stdin(std::process::Stdio::null())
            .spawn()
            .expect("spawn worker");
        children.push((idx, child));
    }
    let limit = std::time::Duration::from_secs(
        std::env::var("VERIF_WATCHDOG_S").ok().and_then(|s| s.parse().ok()).unwrap_or(tier.pick(1500, 6 * 3600)),
    );
    let mut merged = WorkerResult::default();
    let mut fps: BTreeSet<u64> = BTreeSet::new();
    for (idx, mut child) in children {
        let status = loop {
            match child.try_wait() {
                Ok(Some(st)) => break Some(st),
                Ok(None) => {
                    if t0.elapsed() > limit {
                        let _ = child.kill();
                        let _ = child.wait();
                        break None;
                    }
                    std::thread::sleep(std::time::Duration::from_millis(20));
                }
                Err(_) => break None,
            }
        };
        let resfile = outdir.join(format!("w{}.json", idx));
        let wr: Option<WorkerResult> = std::fs::read(&resfile).ok().and_then(|b| serde_json::from_slice(&b).ok());
        match (status, wr) {
            (Some(st), Some(wr)) if st.success() && wr.completed => {
                merged.evaluations += wr.evaluations;
                merged.cases += wr.cases;
                merged.excluded_known += wr.excluded_known;
                merged.validated += wr.validated;
                merged.extra_distinct += wr.extra_distinct;
                fps.extend(wr.nontrivial_fps);
                for (k, v) in wr.classes {
                    *merged.classes.entry(k).or_default() += v;
                }
                for (k, v) in wr.known_hits {
                    *merged.known_hits.entry(k).or_default() += v;
                }
                for (k, v) in wr.other_property_viols {
                    *merged.other_property_viols.entry(k).or_default() += v;
                }
                if merged.samples.len() < 5 {
                    merged.samples.extend(wr.samples.into_iter().take(1));
                }
                violations.extend(wr.violations);
                for m in wr.infra {
                    inconclusive.push(format!("worker {}: {}", idx, m));
                }
            }
            (None, _) => inconclusive.push(format!("worker {} exceeded the watchdog ({} s)", idx, limit.as_secs())),
            (Some(st), _) => {
                // The worker died (abort, signal, stack overflow): attribute to its in-flight case and confirm in a fresh child.
                let inflight = outdir.join(format!("w{}.inflight", idx));
                match std::fs::read_to_string(&inflight).ok().and_then(|t| serde_json::from_str::<Value>(&t).ok()) {
                    Some(v) => {
                        let tmp = base.join(format!("died{}.json", idx));
                        std::fs::write(&tmp, serde_json::to_vec(&json!({"property": id, "part": v["part"], "replay": v["replay"]})).unwrap()).unwrap();
                        let st2 = std::process::Command::new(&exe).args(["replay", id]).arg(&tmp).env("N2CHECK_RUN", format!("{}d", run_tag)).output();
                        match st2 {
                            Ok(o) if o.status.code() == Some(0) => inconclusive.push(format!("worker {} died ({:?}) but its in-flight case passes on replay", idx, st)),
                            Ok(o) => {
                                let how = if o.status.code() == Some(1) { "violates on replay".to_string() } else { format!("kills the process ({:?})", o.status) };
                                violations.push((
                                    v["part"].as_str().unwrap_or("").to_string(),
                                    "process-death".into(),
                                    format!("worker died with {:?}; in-flight case {}", st, how),
                                    json!({"replay": v["replay"], "desc": Value::Null}),
                                ));
                            }
                            Err(e) => inconclusive.push(format!("cannot re-run in-flight case: {}", e)),
                        }
                    }
                    None => inconclusive.push(format!("worker {} died ({:?}) without in-flight record", idx, st)),
                }
            }
        }
    }

    // 3. pinned reproductions of open findings
    let mut known_lines = vec![];
    let pinned = check.pinned();
    {
        let dir = base.join("pinned");
        std::fs::create_dir_all(&dir).unwrap();
        for f in known.iter().filter(|f| f.open && f.prop == id) {
            let mut reproduced = merged.known_hits.get(&f.key).copied().unwrap_or(0) > 0;
            for (key, part, replay) in pinned.iter().filter(|(k, _, _)| *k == f.key) {
                let tmp = dir.join(format!("{}.json", crate::tape::fnv_str(key)));
                std::fs::write(&tmp, serde_json::to_vec(&json!({"property": id, "part": part, "replay": replay})).unwrap()).unwrap();
                let o = std::process::Command::new(&exe).args(["replay", id]).arg(&tmp).env("N2CHECK_RUN", format!("{}p", run_tag)).output();
                if let Ok(o) = o {
                    let text = String::from_utf8_lossy(&o.stdout);
                    if text.lines().any(|l| l.starts_with("KNOWN-FINDING:")) || o.status.code().is_none() {
                        reproduced = true;
                    }
                    if o.status.code() == Some(1) {
                        // a pinned case now fails differently
                        let msg = text.lines().find(|l| l.starts_with("violated:")).unwrap_or("pinned case fails with an unlisted signature").to_string();
                        violations.push((part.to_string(), "pinned".into(), msg, json!({"replay": replay, "desc": Value::Null})));
                    }
                }
            }
            if reproduced {
                known_lines.push(format!("KNOWN-FINDING: property={} {}", id, f.what));
            } else {
                eprintln!("note: listed finding {} [{}] did not reproduce in this run", id, f.key);
            }
        }
    }
    for l in &known_lines {
        println!("{}", l);
    }

    // 4. replay files for violations
    let mut exit = 0;
    let outdir_v = root.join("out").join(id);
    let mut vlines = vec![];
    for (part, key, msg, payload) in &violations {
        std::fs::create_dir_all(&outdir_v).ok();
        let body = json!({"property": id, "part": part, "key": key, "violation": msg, "seed": seed, "tier": tier.name(), "replay": payload["replay"], "desc": payload["desc"]});
        let fp = crate::tape::fnv_str(&serde_json::to_string(&body["replay"]).unwrap());
        let path = outdir_v.join(format!("{:016x}.json", fp));
        let _ = std::fs::write(&path, serde_json::to_vec_pretty(&body).unwrap());
        eprintln!("violated: {} [{}] part={}", msg, key, part);
        vlines.push(format!("VIOLATION property={} replay={}", id, path.display()));
        exit = 1;
    }
    vlines.dedup();
    for l in &vlines {
        println!("{}", l);
    }
    if exit == 0 && !inconclusive.is_empty() {
        for m in &inconclusive {
            eprintln!("inconclusive: {}", m);
        }
        exit = 2;
    }

    // 5. evidence
    let wall = t0.elapsed().as_secs_f64();
    let mut coverage = serde_json::Map::new();
    coverage.insert("evaluations".into(), json!(merged.evaluations));
    coverage.insert("cases".into(), json!(merged.cases));
    coverage.insert("distinct_nontrivial".into(), json!(fps.len() as u64 + merged.extra_distinct));
    coverage.insert("rule".into(), json!(check.rule()));
    coverage.insert("samples".into(), json!(merged.samples));
    coverage.insert("classes".into(), json!(merged.classes));
    coverage.insert("excluded_known".into(), json!(merged.excluded_known));
    if merged.validated > 0 {
        coverage.insert("traces_validated_against_impl".into(), json!(merged.validated));
    }
    coverage.insert("known_finding_hits".into(), json!(merged.known_hits));
    coverage.insert("regression_cases_replayed".into(), json!(regress_run));
    coverage.insert("violations_of_other_properties_seen".into(), json!(merged.other_property_viols));
    coverage.insert("workers".into(), json!(n));
    coverage.insert(
        "parts".into(),
        json!(check.parts(tier).iter().map(|p| format!("{}: {:?}", p.name, p.kind)).collect::<Vec<_>>()),
    );
    if let Some(what) = check.exhaustive(tier) {
        coverage.insert("exhaustive".into(), json!(true));
        coverage.insert("exhaustive_over".into(), json!(what));
    }
    if !inconclusive.is_empty() {
        coverage.insert("inconclusive".into(), json!(inconclusive));
    }
    let evidence = json!({
        "property_id": id,
        "tier": tier.name(),
        "seed": seed,
        "level": check.level(),
        "coverage": Value::Object(coverage),
        "assumptions": check.assumptions(),
        "wall_s": (wall * 100.0).round() / 100.0,
        "violations": violations.len(),
    });
    let evdir = root.join("evidence");
    std::fs::create_dir_all(&evdir).ok();
    let evpath = evdir.join(format!("{}.json", id));
    if let Err(e) = std::fs::write(&evpath, serde_json::to_vec_pretty(&evidence).unwrap()) {
        eprintln!("n2check: cannot write evidence: {}", e);
        if exit == 0 {
            exit = 2;
        }
    }
    eprintln!(
        "{} {}: {} cases, {} evaluations, {} distinct non-trivial, {} violations, {:.1}s",
        id,
        tier.name(),
        merged.cases,
        merged.evaluations,
        fps.len() as u64 + merged.extra_distinct,
        violations.len(),
        wall
    );
    let _ = std::fs::remove_dir_all(&base);
    exit
}
