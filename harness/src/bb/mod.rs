//! Engine `bb`: the real n2 binary (hooks off) runs commands that are this
//! program in `agent` mode.  Serves C16 and the pty slice of C20.

pub mod agent;
pub mod c16;
pub mod deps;
pub mod incr;
pub mod pty;

use std::path::PathBuf;

/// The real binary, built by ./check from /repo's working tree with the hooks off.
pub fn n2_binary() -> PathBuf {
    if let Ok(p) = std::env::var("N2_BIN") {
        return PathBuf::from(p);
    }
    crate::engine::verif_root().join("target/n2bin/debug/n2")
}

pub fn self_exe() -> String {
    std::env::current_exe().unwrap().to_string_lossy().into_owned()
}

/// Escape a shell command string for a `command = ...` binding.
pub fn ninja_escape_value(s: &str) -> String {
    s.replace('$', "$$")
}
