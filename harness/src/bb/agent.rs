//! `n2check agent <logdir> <id> <plan> <exit> <out> <rsp|-> [extra args...]`
//! The command that n2 runs in black-box checks.  It records what it observes
//! about its environment and produces self-describing output.

use std::io::{Read, Write};
use std::os::fd::FromRawFd;

/// Payload alphabet: never '@' (record marker) so that records can be found unambiguously.
fn payload(task: usize, fd: usize, seq: usize, n: usize) -> Vec<u8> {
    const AL: &[u8] = b"abcdefghijklmnopqrstuvwxyz0123456789 .,;:-_+*/\\\"'$#%&()[]{}<>=!?\t\n\xc3\xa9";
    let mut x: u64 = (task as u64 + 1).wrapping_mul(0x9E3779B97F4A7C15) ^ ((fd as u64) << 32) ^ (seq as u64 + 7).wrapping_mul(0xD1B54A32D192ED03);
    let mut v = Vec::with_capacity(n);
    for _ in 0..n {
        x ^= x << 13;
        x ^= x >> 7;
        x ^= x << 17;
        v.push(AL[(x % AL.len() as u64) as usize]);
    }
    v
}

pub fn record(task: usize, fd: usize, seq: usize, n: usize, last: bool) -> Vec<u8> {
    let mut p = payload(task, fd, seq, n);
    let _ = last;
    // every record ends with a newline so that whatever n2 prints next starts at a line start
    p.push(b'\n');
    let mut r = format!("@{}:{}:{}:{}:", task, fd, seq, p.len()).into_bytes();
    r.extend(p);
    r
}

pub fn parse_plan(plan: &str) -> Vec<(usize, usize)> {
    plan.split(',').filter(|s| !s.is_empty()).filter_map(|s| s.split_once(':')).map(|(a, b)| (a.parse().unwrap_or(1), b.parse().unwrap_or(0))).collect()
}

pub fn main(args: &[String]) -> ! {
    let argv: Vec<String> = std::env::args().collect();
    let logdir = &args[0];
    let id: usize = args[1].parse().unwrap_or(0);
    // dry mode (argv differential): record argv only
    if let Ok(dry) = std::env::var("N2AGENT_DRY") {
        let v = serde_json::json!({"argv": argv});
        let _ = std::fs::write(format!("{}/{}.json", dry, id), serde_json::to_vec(&v).unwrap());
        std::process::exit(0);
    }
    let plan = parse_plan(&args[2]);
    let exit: i32 = args[3].parse().unwrap_or(0);
    let out = &args[4];
    let rsp = &args[5];
    let start_ns = {
        let mut ts = libc::timespec { tv_sec: 0, tv_nsec: 0 };
        unsafe { libc::clock_gettime(libc::CLOCK_MONOTONIC, &mut ts) };
        ts.tv_sec as u64 * 1_000_000_000 + ts.tv_nsec as u64
    };
    // open descriptors (before we open anything ourselves)
    let mut fds: Vec<(i32, String)> = vec![];
    if let Ok(rd) = std::fs::read_dir("/proc/self/fd") {
        for e in rd.flatten() {
            if let Ok(n) = e.file_name().to_string_lossy().parse::<i32>() {
                let target = std::fs::read_link(e.path()).map(|p| p.to_string_lossy().into_owned()).unwrap_or_default();
                fds.push((n, target));
            }
        }
    }
    fds.sort();
    // stdin: fstat + read to EOF
    let mut st: libc::stat = unsafe { std::mem::zeroed() };
    unsafe { libc::fstat(0, &mut st) };
    let (maj, min) = unsafe { (libc::major(st.st_rdev), libc::minor(st.st_rdev)) };
    let is_chr = st.st_mode & libc::S_IFMT == libc::S_IFCHR;
    let mut buf = [0u8; 16];
    let nread = unsafe { libc::read(0, buf.as_mut_ptr() as *mut _, 16) };
    let cwd = std::env::current_dir().map(|p| p.to_string_lossy().into_owned()).unwrap_or_default();
    let rsp_content = if rsp != "-" { std::fs::read(rsp).ok().map(|b| String::from_utf8_lossy(&b).into_owned()) } else { None };
    let outdir_exists = std::path::Path::new(out).parent().map(|p| p.as_os_str().is_empty() || p.is_dir()).unwrap_or(true);
    let v = serde_json::json!({
        "argv": argv, "cwd": cwd, "stdin": {"chr": is_chr, "major": maj, "minor": min, "read": nread},
        "fds": fds, "rsp": rsp_content, "outdir_exists": outdir_exists, "start_ns": start_ns,
    });
    let _ = std::fs::write(format!("{}/{}.json", logdir, id), serde_json::to_vec(&v).unwrap());
    // output, unbuffered, straight to the descriptors
    let mut o1 = unsafe { std::fs::File::from_raw_fd(1) };
    let mut o2 = unsafe { std::fs::File::from_raw_fd(2) };
    let n = plan.len();
    for (seq, (fd, len)) in plan.iter().enumerate() {
        if *fd == 0 {
            // a pause (milliseconds), so that commands overlap in time
            std::thread::sleep(std::time::Duration::from_millis(*len as u64));
            continue;
        }
        let r = record(id, *fd, seq, *len, seq + 1 == n);
        let w = if *fd == 2 { &mut o2 } else { &mut o1 };
        let _ = w.write_all(&r);
    }
    let _ = std::fs::write(out, format!("out {}", id));
    let end_ns = {
        let mut ts = libc::timespec { tv_sec: 0, tv_nsec: 0 };
        unsafe { libc::clock_gettime(libc::CLOCK_MONOTONIC, &mut ts) };
        ts.tv_sec as u64 * 1_000_000_000 + ts.tv_nsec as u64
    };
    let _ = std::fs::write(format!("{}/{}.end", logdir, id), end_ns.to_string());
    let mut _unused = String::new();
    let _ = std::io::stdin().read_to_string(&mut _unused);
    std::mem::forget(o1);
    std::mem::forget(o2);
    std::process::exit(exit);
}
