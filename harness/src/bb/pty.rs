//! The real binary with stdin/stdout on a pseudo-terminal of a chosen width (fancy progress display).

use super::*;
use crate::engine::*;
use crate::tape::{fnv_str, Case, Tape};
use crate::util;
use serde_json::json;
use std::os::fd::{FromRawFd, RawFd};
use std::process::{Command, Stdio};

fn open_pty(cols: u16) -> Option<(RawFd, RawFd)> {
    unsafe {
        let m = libc::posix_openpt(libc::O_RDWR | libc::O_NOCTTY);
        if m < 0 || libc::grantpt(m) != 0 || libc::unlockpt(m) != 0 {
            return None;
        }
        let mut buf = [0 as libc::c_char; 128];
        if libc::ptsname_r(m, buf.as_mut_ptr(), buf.len()) != 0 {
            return None;
        }
        let s = libc::open(buf.as_ptr(), libc::O_RDWR | libc::O_NOCTTY);
        if s < 0 {
            return None;
        }
        let ws = libc::winsize { ws_row: 24, ws_col: cols, ws_xpixel: 0, ws_ypixel: 0 };
        libc::ioctl(s, libc::TIOCSWINSZ, &ws);
        libc::fcntl(m, libc::F_SETFD, libc::FD_CLOEXEC);
        Some((m, s))
    }
}

/// One build under a pty.  Returns violations of C20 ("a rendering problem never aborts or alters the build").
pub fn run_pty_case(case: &Case, env: &Env, long_sleep: bool) -> CaseOut {
    let dir = env.dir.join("pty");
    util::fresh_cwd(&dir);
    let mut t = Tape::new(&case.main);
    let cols = 10 + t.below(31) as u16;
    let n = 2 + t.below(5);
    let units = ["\u{e9}", "\u{20ac}", "\u{1F600}", "a\u{e9}", "ab"];
    let mut m = String::new();
    for id in 0..n {
        let u = units[t.below(units.len())];
        let desc: String = std::iter::repeat(u).take(5 + t.below(80)).collect();
        let line: String = std::iter::repeat(units[t.below(units.len())]).take(3 + t.below(60)).collect();
        let sleep = if long_sleep && id == 0 { "3.3".to_string() } else { format!("0.{}", 1 + t.below(3)) };
        // print a multi-byte last line, stay alive long enough for the status thread to render it
        let cmd = format!("printf '%s\\n' '{}' ; sleep {} ; printf 'done {}\\n' ; touch o{}", line, sleep, id, id);
        m += &format!("rule r{}\n  command = {}\n  description = {} {}\nbuild o{}: r{}\n", id, ninja_escape_value(&cmd), desc, id, id, id);
    }
    std::fs::write("build.ninja", &m).unwrap();
    let mut out = CaseOut { evals: 1, nontrivial: true, ..Default::default() };
    let Some((master, slave)) = open_pty(cols) else {
        out.classes.push("pty-unavailable".into());
        out.nontrivial = false;
        return out;
    };
    let child = unsafe { Command::new(n2_binary()).args(["-j", "4"]).current_dir(&dir).stdin(Stdio::from_raw_fd(libc::dup(slave))).stdout(Stdio::from_raw_fd(libc::dup(slave))).stderr(Stdio::from_raw_fd(libc::dup(slave))).spawn() };
    unsafe { libc::close(slave) };
    let mut child = match child {
        Ok(c) => c,
        Err(e) => {
            out.viols.push(Viol::new("INFRA", "cannot-run-n2", format!("cannot run n2: {}", e)));
            return out;
        }
    };
    // drain the master until the child exits
    let mut shown: Vec<u8> = vec![];
    let mut buf = [0u8; 4096];
    unsafe {
        let fl = libc::fcntl(master, libc::F_GETFL);
        libc::fcntl(master, libc::F_SETFL, fl | libc::O_NONBLOCK);
    }
    let t0 = std::time::Instant::now();
    let status = loop {
        let n = unsafe { libc::read(master, buf.as_mut_ptr() as *mut _, buf.len()) };
        if n > 0 {
            shown.extend_from_slice(&buf[..n as usize]);
            continue;
        }
        if let Ok(Some(st)) = child.try_wait() {
            // final drain
            loop {
                let n = unsafe { libc::read(master, buf.as_mut_ptr() as *mut _, buf.len()) };
                if n <= 0 {
                    break;
                }
                shown.extend_from_slice(&buf[..n as usize]);
            }
            break Some(st);
        }
        if t0.elapsed().as_secs() > 60 {
            let _ = child.kill();
            let _ = child.wait();
            break None;
        }
        std::thread::sleep(std::time::Duration::from_millis(5));
    };
    unsafe { libc::close(master) };
    let text = String::from_utf8_lossy(&shown).into_owned();
    match status {
        None => out.classes.push("watchdog".into()),
        Some(st) => {
            use std::os::unix::process::ExitStatusExt;
            if text.contains("panicked") {
                let line = text.lines().find(|l| l.contains("panicked")).unwrap_or("").to_string();
                out.viols.push(Viol::new("C20", "render-panic", format!("n2 panicked while rendering on a {}-column terminal: {}", cols, line.chars().take(300).collect::<String>())));
            }
            if st.code() != Some(0) {
                out.viols.push(Viol::new("C20", "build-aborted", format!("the build does nothing but sleep and touch, yet n2 ended with {:?} (signal {:?}) on a {}-column terminal", st.code(), st.signal(), cols)));
            }
            for id in 0..n {
                if !std::path::Path::new(&format!("o{}", id)).exists() {
                    out.viols.push(Viol::new("C20", "output-missing", format!("output o{} was not built", id)));
                    break;
                }
            }
            // the rows of every progress frame (between the bar line and the cursor-up sequence that follows it) are task
            // messages and last-output lines: each fits the terminal width in bytes and is cut on a character boundary
            {
                let bytes = &shown;
                let mut i = 0;
                while let Some(pos) = bytes[i..].windows(7).position(|w| w == b" done, ") {
                    let at = i + pos;
                    // start of the bar line
                    let ls = bytes[..at].iter().rposition(|&c| c == b'\n' || c == b'J').map(|p| p + 1).unwrap_or(0);
                    // the frame ends at ESC [ <n> A
                    let Some(endrel) = bytes[at..].windows(2).position(|w| w == b"\x1b[") else { break };
                    let frame = &bytes[ls..at + endrel];
                    let rows: Vec<&[u8]> = frame.split(|&c| c == b'\n').collect();
                    for row in rows.iter().skip(1) {
                        let row: Vec<u8> = row.iter().copied().filter(|&c| c != b'\r').collect();
                        if row.is_empty() || row.starts_with(b"...and ") {
                            continue;
                        }
                        let txt = String::from_utf8_lossy(&row).into_owned();
                        if row.len() > cols as usize {
                            out.viols.push(Viol::new("C20", "pty-row-too-wide", format!("a status row is {} bytes on a {}-column terminal: {:?}", row.len(), cols, txt)));
                        } else if txt.contains('\u{fffd}') {
                            out.viols.push(Viol::new("C20", "pty-row-cut-inside-character", format!("a status row was cut inside a character: {:?}", txt)));
                        }
                        if !out.viols.is_empty() {
                            break;
                        }
                    }
                    if !out.viols.is_empty() {
                        break;
                    }
                    i = at + 7;
                }
            }
            // C19 through the real display: every `a/b done` line shows b = number of (non-phony) wanted steps and a <= b
            for line in text.split(|c| c == '\n' || c == '\r') {
                if let Some(pos) = line.find(" done, ") {
                    let head = &line[..pos];
                    if let Some(frac) = head.rsplit(' ').next() {
                        if let Some((a, b)) = frac.split_once('/') {
                            if let (Ok(a), Ok(b)) = (a.parse::<usize>(), b.parse::<usize>()) {
                                // (a frame drawn by the status thread before the first update of the build phase -- the
                                // manifest is still being loaded -- shows 0/0: the property speaks of updates within a phase)
                                if (a, b) == (0, 0) {
                                    continue;
                                }
                                if b != n || a > b {
                                    out.viols.push(Viol::new("C19", "displayed-progress", format!("progress line shows {}/{} done for a build of {} steps: {:?}", a, b, n, line.chars().take(120).collect::<String>())));
                                    break;
                                }
                            }
                        }
                    }
                }
            }
            if !text.contains("now up to date") && out.viols.is_empty() {
                out.viols.push(Viol::new("C20", "no-summary", format!("no success summary on the terminal: {:?}", text.chars().rev().take(200).collect::<String>())));
            }
        }
    }
    out.classes.push(format!("cols{}", cols / 10 * 10));
    out.fp = fnv_str(&format!("{}|{}", cols, m));
    out.desc = json!({"cols": cols, "manifest": m, "terminal_bytes": shown.len()});
    let _ = std::env::set_current_dir("/");
    out
}
