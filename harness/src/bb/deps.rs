//! Real-binary slice for discovered dependencies (C09) and their spellings (C13): a `depfile` step or a
//! `deps = msvc` step whose command reports headers under varying spellings.

use super::*;
use crate::engine::*;
use crate::tape::{fnv_str, Case, Tape};
use crate::util;
use serde_json::json;
use std::process::{Command, Stdio};
use std::time::{Duration, UNIX_EPOCH};

fn run_n2(dir: &std::path::Path, args: &[&str]) -> (Option<i32>, String) {
    match Command::new(n2_binary()).args(args).current_dir(dir).stdin(Stdio::null()).output() {
        Ok(o) => (o.status.code(), String::from_utf8_lossy(&o.stdout).into_owned() + &String::from_utf8_lossy(&o.stderr)),
        Err(e) => (None, format!("cannot run n2: {}", e)),
    }
}

fn spell(p: &str, k: usize) -> String {
    match k % 5 {
        0 => p.to_string(),
        1 => format!("./{}", p),
        2 => format!("zz/../{}", p),
        3 => format!(".//{}", p),
        _ => match p.rfind('/') {
            Some(i) => format!("{}/./{}", &p[..i], &p[i + 1..]),
            None => format!("././{}", p),
        },
    }
}

pub fn run_deps_case(case: &Case, env: &Env, prop: &str) -> CaseOut {
    let dir = env.dir.join("bbd");
    util::fresh_cwd(&dir);
    let mut t = Tape::new(&case.main);
    let msvc = t.chance(50);
    // some toolchains set both: the /showIncludes notes must still be filtered, the depfile supplies the deps
    let both = msvc && t.chance(30);
    let hdr = ["hdr.h", "inc/hdr.h", "a b.h"][t.below(3)];
    let other = "sub/other.h";
    let (k1, k2, k3) = (t.below(5), t.below(5), t.below(5));
    let declared_too = t.chance(25);
    let crlf = msvc && t.chance(40);
    let extra_spaces = if msvc { t.below(4) } else { 0 };
    // spaces inside names cannot be expressed in a depfile here: keep that name for msvc only
    let hdr = if (!msvc || both) && hdr.contains(' ') { "hdr.h" } else { hdr };
    for f in [hdr, other, "in.c", "gen.in", "dep_only.h"] {
        if let Some(p) = std::path::Path::new(f).parent() {
            if !p.as_os_str().is_empty() {
                std::fs::create_dir_all(p).unwrap();
            }
        }
        std::fs::write(f, f).unwrap();
    }
    let mut tick = 0u64;
    let mut bump = |f: &str| {
        tick += 1;
        util::set_mtime(f, UNIX_EPOCH + Duration::from_secs(1_700_000_000 + tick * 10));
    };
    for f in [hdr, other, "in.c", "gen.in", "dep_only.h"] {
        bump(f);
    }
    let (s_hdr, s_gen, s_other) = (spell(hdr, k1), spell("gen.h", k2), spell(other, k3));
    let nl = if crlf { "\\r\\n" } else { "\\n" };
    let dep_part = format!(
        "printf 'out.o: %s \\\\\\n  %s' '{h}' '{g}' > out.o.d ; if test -f {o}; then printf ' %s' '{os}' >> out.o.d; fi ; printf ' dep_only.h\\n' >> out.o.d ; ",
        h = s_hdr,
        g = s_gen,
        o = other,
        os = s_other
    );
    let cmd = if msvc {
        let pad = " ".repeat(extra_spaces);
        format!(
            "printf 'first line\\nNote: including file: {pad}{h}{nl}middle\\nNote: including file: {g}{nl}' ; if test -f {o}; then printf 'Note: including file: {os}{nl}'; fi ; printf 'last line\\n' ; cat in.c '{hraw}' gen.h > out.o",
            pad = pad,
            h = s_hdr,
            g = s_gen,
            o = other,
            os = s_other,
            nl = nl,
            hraw = hdr
        )
    } else {
        format!(
            "printf 'out.o: %s \\\\\\n  %s' '{h}' '{g}' > out.o.d ; if test -f {o}; then printf ' %s' '{os}' >> out.o.d; fi ; printf '\\n' >> out.o.d ; printf 'compiling\\n' ; cat in.c '{hraw}' gen.h > out.o",
            h = s_hdr,
            g = s_gen,
            o = other,
            os = s_other,
            hraw = hdr
        )
    };
    let cmd = if both { format!("{}{}", dep_part, cmd) } else { cmd };
    let mut m = String::new();
    m += "rule gen\n  command = cp gen.in gen.h\nbuild gen.h: gen gen.in\n";
    m += &format!("rule cc\n  command = {}\n  description = CC\n", ninja_escape_value(&cmd));
    if msvc {
        m += "  deps = msvc\n";
    }
    if !msvc || both {
        m += "  depfile = out.o.d\n";
    }
    m += &format!("build out.o: cc in.c{} || gen.h\n", if declared_too { format!(" | {}", crate::sim::model::esc(hdr)) } else { String::new() });
    std::fs::write("build.ninja", &m).unwrap();
    let mut out = CaseOut { evals: 0, nontrivial: s_hdr != hdr || s_gen != "gen.h", ..Default::default() };
    let mut trace = vec![];
    let viols = std::cell::RefCell::new(Vec::<Viol>::new());
    let v = |k: &str, msg: String| {
        viols.borrow_mut().push(Viol::new("C09", k, msg.clone()));
        viols.borrow_mut().push(Viol::new("C13", k, msg));
    };
    let step = |name: &str, expect_code: i32, expect_tail: &str, trace: &mut Vec<serde_json::Value>| -> String {
        let (code, text) = run_n2(&dir, &["-j", "2"]);
        if code.is_none() && text.starts_with("cannot run n2") {
            viols.borrow_mut().push(Viol::new("INFRA", "cannot-run-n2", text.clone()));
            return text;
        }
        trace.push(json!({"step": name, "exit": code, "last": text.lines().last().unwrap_or("")}));
        if code != Some(expect_code) || !text.lines().last().unwrap_or("").contains(expect_tail) {
            v(&format!("bb:{}", name.split(' ').next().unwrap_or("")), format!("{}: expected exit {} and a last line containing {:?}, got exit {:?} and {:?}", name, expect_code, expect_tail, code, text.lines().rev().take(3).collect::<Vec<_>>()));
        }
        text
    };
    let first = step("initial build", 0, "ran 2 tasks", &mut trace);
    if msvc {
        if first.lines().any(|l| l.starts_with("Note: including file:")) {
            v("bb:include-line-shown", format!("a /showIncludes line is shown to the user: {:?}", first));
        }
        let shown: Vec<&str> = first.lines().filter(|l| ["first line", "middle", "last line"].contains(&l.trim_end_matches('\r'))).collect();
        if shown.len() != 3 {
            v("bb:output-lost", format!("ordinary output lines of the command are missing or altered: {:?}", first));
        }
    }
    step("rebuild without changes", 0, "no work to do", &mut trace);
    bump(hdr);
    step("rebuild after touching the reported header", 0, "ran 1 task", &mut trace);
    std::fs::write("gen.in", "changed").unwrap();
    bump("gen.in");
    step("rebuild after the generated header's input changed", 0, "ran 2 tasks", &mut trace);
    step("second rebuild without changes", 0, "no work to do", &mut trace);
    std::fs::remove_file(other).unwrap();
    step("rebuild after a reported header vanished", 0, "ran 1 task", &mut trace);
    step("final rebuild without changes", 0, "no work to do", &mut trace);
    if both {
        // a header that only the depfile names (the notes do not mention it) is a dependency all the same
        bump("dep_only.h");
        step("rebuild after touching the header named only by the depfile", 0, "ran 1 task", &mut trace);
        step("last rebuild without changes", 0, "no work to do", &mut trace);
    }
    out.viols = viols.into_inner();
    out.evals = 7;
    out.classes = vec![if both { "msvc+depfile".to_string() } else if msvc { "msvc".to_string() } else { "depfile".to_string() }];
    if declared_too {
        out.classes.push("also-declared".into());
    }
    out.fp = fnv_str(&m);
    out.desc = json!({"manifest": m, "history": trace});
    // report under the requested property first
    out.viols.sort_by_key(|x| x.prop != prop);
    let _ = std::env::set_current_dir("/");
    out
}


/// C15 through the real binary: a command that leaves a malformed depfile fails that step with a parse error
/// naming the depfile; a missing depfile counts as empty.
/// The prerequisites listed by the depfile of the last successful run are the discovered dependencies, exactly:
/// a list that shrinks to nothing (an entry without prerequisites, or no depfile at all) leaves none behind, and
/// one that grows is honoured.
fn shrinking_depfile_case(t: &mut Tape, dir: &std::path::Path, depname: &str) -> CaseOut {
    let mut out = CaseOut { nontrivial: true, ..Default::default() };
    let pause = || std::thread::sleep(std::time::Duration::from_millis(15));
    std::fs::write("a.h", "a").unwrap();
    std::fs::write("b.h", "b").unwrap();
    std::fs::write("in.c", "c1").unwrap();
    std::fs::create_dir_all("deps").unwrap();
    let cmd = format!("if test -f dep.txt; then cat dep.txt > {d}; else rm -f {d}; fi; cp in.c out.o", d = depname);
    let m = format!("rule cc\n  command = {}\n  depfile = {}\n  description = CC\nbuild out.o: cc in.c\n", ninja_escape_value(&cmd), depname);
    std::fs::write("build.ninja", &m).unwrap();
    let empties: [Option<&str>; 5] = [Some("out.o:\n"), Some("out.o: \\\n\n"), Some("out.o:"), None, Some("\n")];
    let second = empties[t.below(empties.len())];
    let mut trace = vec![];
    let mut step = |what: &str, expect_run: bool, out: &mut CaseOut| -> bool {
        let (code, text) = run_n2(dir, &["-j", "1"]);
        out.evals += 1;
        trace.push(json!({"step": what, "exit": code, "output": text}));
        if code.is_none() && text.starts_with("cannot run n2") {
            out.viols.push(Viol::new("INFRA", "cannot-run-n2", text));
            return false;
        }
        let ran = text.contains("ran 1 task");
        let noop = text.contains("no work to do");
        if code != Some(0) || (expect_run && !ran) || (!expect_run && !noop) {
            out.viols.push(Viol::new("C15", "bb:prerequisites-not-exact", format!("{}: expected {}, n2 exited {:?} with {:?}", what, if expect_run { "the step to run" } else { "no work" }, code, text.lines().last())));
            return false;
        }
        true
    };
    std::fs::write("dep.txt", "out.o: a.h\n").unwrap();
    let ok = step("first build, depfile lists a.h", true, &mut out)
        && {
            pause();
            std::fs::write("a.h", "a2").unwrap();
            step("a.h edited", true, &mut out)
        }
        && {
            pause();
            std::fs::write("in.c", "c2").unwrap();
            match second {
                Some(txt) => std::fs::write("dep.txt", txt).unwrap(),
                None => std::fs::remove_file("dep.txt").unwrap(),
            }
            step("source edited, depfile now lists nothing", true, &mut out)
        }
        && {
            pause();
            std::fs::write("a.h", "a3").unwrap();
            step("a.h edited after the depfile stopped listing it", false, &mut out)
        }
        && {
            pause();
            std::fs::write("in.c", "c3").unwrap();
            std::fs::write("dep.txt", "out.o: b.h \\\n a.h\n").unwrap();
            step("source edited, depfile lists b.h and a.h", true, &mut out)
        }
        && {
            pause();
            std::fs::write("b.h", "b2").unwrap();
            step("b.h edited", true, &mut out)
        }
        && step("nothing changed", false, &mut out);
    let _ = ok;
    out.classes = vec!["shrinking-depfile".to_string()];
    out.fp = fnv_str(&format!("{}|{:?}", m, second));
    out.desc = json!({"manifest": m, "second_depfile": second, "history": trace});
    let _ = std::env::set_current_dir("/");
    out
}

pub fn run_bad_depfile_case(case: &Case, env: &Env) -> CaseOut {
    let dir = env.dir.join("bbm");
    util::fresh_cwd(&dir);
    let mut t = Tape::new(&case.main);
    // (a line starting with a colon is accepted by the parser as an entry with an empty target name: not malformed)
    let bad = ["out.o: a.h \\\\x b.h", "out.o a.h", "\\\\", "out.o: a.h \\\\"];
    let which = t.below(bad.len() + 3);
    let depname = ["out.o.d", "deps/out.d"][t.below(2)];
    if which == bad.len() + 2 {
        return shrinking_depfile_case(&mut t, &dir, depname);
    }
    std::fs::write("a.h", "a").unwrap();
    std::fs::write("in.c", "c").unwrap();
    std::fs::create_dir_all("deps").unwrap();
    let write = if which < bad.len() { format!("printf '{}' > {}", bad[which], depname) } else if which == bad.len() { "true".to_string() } else { format!("printf 'out.o: a.h\\n' > {}", depname) };
    let m = format!("rule cc\n  command = {} ; cp in.c out.o\n  depfile = {}\n  description = CC\nbuild out.o: cc in.c\n", ninja_escape_value(&write), depname);
    std::fs::write("build.ninja", &m).unwrap();
    let (code, text) = run_n2(&dir, &["-j", "1"]);
    let mut out = CaseOut { evals: 1, nontrivial: which < bad.len(), ..Default::default() };
    if code.is_none() && text.starts_with("cannot run n2") {
        out.viols.push(Viol::new("INFRA", "cannot-run-n2", text));
        return out;
    }
    if which < bad.len() {
        if code != Some(1) || !text.contains("failed: CC") {
            out.viols.push(Viol::new("C15", "bb:malformed-depfile-accepted", format!("the command leaves a malformed depfile ({:?}) but n2 exited {:?}: {:?}", bad[which], code, text)));
        } else if !text.contains("parse error") || !text.contains(&format!("{}:", depname)) {
            out.viols.push(Viol::new("C15", "bb:diagnostic", format!("the failure does not carry a parse error naming {}: {:?}", depname, text)));
        }
    } else if code != Some(0) {
        out.viols.push(Viol::new("C15", "bb:valid-or-missing-depfile-rejected", format!("depfile {} but n2 exited {:?}: {:?}", if which == bad.len() { "missing" } else { "well-formed" }, code, text)));
    } else {
        let (c2, t2) = run_n2(&dir, &["-j", "1"]);
        out.evals += 1;
        if c2 != Some(0) || !t2.contains("no work to do") {
            out.viols.push(Viol::new("C15", "bb:rebuild", format!("second build: exit {:?}, {:?}", c2, t2)));
        }
    }
    out.classes = vec![if which < bad.len() { "malformed".to_string() } else if which == bad.len() { "missing".to_string() } else { "well-formed".to_string() }];
    out.fp = fnv_str(&m);
    out.desc = json!({"manifest": m, "exit": code, "output": text});
    let _ = std::env::set_current_dir("/");
    out
}
