//! Real-binary slice of the incremental-build properties (C02, C03, C05): projects of the `sim` generator with
//! every command replaced by `n2check step ...`, a real process that reads its inputs, writes outputs whose
//! content is the same function the model uses, writes a depfile / prints /showIncludes lines, reads its
//! rspfile, and fails on request.  n2 runs unmodified (hooks off); the reference model judges what it did.

use super::*;
use crate::engine::*;
use crate::sim::exec::InvSpec;
use crate::sim::hist::*;
use crate::sim::model::*;
use crate::sim::world::*;
use crate::tape::{fnv_str, Case, Tape};
use crate::util;
use serde_json::json;
use std::collections::BTreeSet;
use std::io::Write;
use std::process::{Command, Stdio};

/// `n2check step <ctl dir> <uid> <restat 0|1> <deps 0|1|2|3> <rsp path|-> <cmd identity> <n outs> <outs...> <reads...>`
pub fn step_main(args: &[String]) -> ! {
    let ctl = &args[0];
    let uid: usize = args[1].parse().unwrap_or(0);
    let restat = args[2] == "1";
    let deps: u8 = args[3].parse().unwrap_or(0);
    let rsp_path = &args[4];
    let identity = &args[5];
    let nouts: usize = args[6].parse().unwrap_or(1);
    let outs: Vec<String> = args[7..7 + nouts].to_vec();
    let mut reads: Vec<String> = args[7 + nouts..].to_vec();
    let log = |what: &str| {
        if let Ok(mut f) = std::fs::OpenOptions::new().append(true).create(true).open(format!("{}/log", ctl)) {
            let _ = f.write_all(format!("{}\t{}\n", uid, what).as_bytes());
        }
    };
    log("start");
    // what this command "includes" (scenario state kept by the harness, like the text of a source file)
    let inc: Vec<String> = std::fs::read_to_string(format!("{}/includes.{}", ctl, uid)).unwrap_or_default().lines().filter(|l| !l.is_empty()).map(|l| l.to_string()).collect();
    reads.extend(inc.iter().cloned());
    if std::path::Path::new(&format!("{}/fail.{}", ctl, uid)).exists() {
        let scribble = std::path::Path::new(&format!("{}/scribble.{}", ctl, uid)).exists();
        if scribble {
            let _ = std::fs::write(&outs[0], "garbage written by a failing command");
        }
        println!("boom {}", uid);
        log("fail");
        if let Ok(sig) = std::fs::read_to_string(format!("{}/signal.{}", ctl, uid)) {
            // die from a signal instead of exiting non-zero (a crashing or killed tool): a failure all the same
            let sig: i32 = sig.trim().parse().unwrap_or(libc::SIGSEGV);
            let _ = std::io::stdout().flush();
            unsafe {
                libc::signal(sig, libc::SIG_DFL);
                libc::kill(libc::getpid(), sig);
            }
        }
        std::process::exit(1);
    }
    let rsp = if rsp_path != "-" { std::fs::read_to_string(rsp_path).unwrap_or_else(|_| "<no rspfile>".into()) } else { String::new() };
    let mut read: Vec<(String, Vec<u8>)> = vec![];
    for f in &reads {
        read.push((f.clone(), std::fs::read(f).unwrap_or_else(|_| b"<missing>".to_vec())));
    }
    for (k, o) in outs.iter().enumerate() {
        let ks = k.to_string();
        let mut parts: Vec<&[u8]> = vec![identity.as_bytes(), rsp.as_bytes(), ks.as_bytes()];
        for (n, c) in &read {
            parts.push(n.as_bytes());
            parts.push(c);
        }
        let c = content_hash(&parts);
        if restat && std::fs::read(o).ok().as_deref() == Some(c.as_bytes()) {
            continue;
        }
        if let Some(p) = std::path::Path::new(o).parent() {
            if !p.as_os_str().is_empty() && !p.is_dir() {
                println!("output directory of {} missing", o);
                log("fail");
                std::process::exit(3);
            }
        }
        let _ = std::fs::write(o, c);
    }
    let existing: Vec<&String> = inc.iter().filter(|f| std::path::Path::new(f.as_str()).is_file()).collect();
    if deps == 3 {
        // both a depfile and `deps = msvc`: the depfile is what counts, the notes are still not for the user
        println!("compiling {}", uid);
        for f in &existing {
            println!("Note: including file:  {}", f);
        }
    }
    match deps {
        1 | 3 => {
            let mut d = format!("{}:", outs[0]);
            for (i, f) in existing.iter().enumerate() {
                d.push_str(if i % 2 == 0 { " " } else { " \\\n  " });
                d.push_str(&if i % 3 == 1 { format!("./{}", f) } else { f.to_string() });
            }
            d.push('\n');
            let _ = std::fs::write(format!("{}.d", outs[0]), d);
        }
        2 => {
            println!("compiling {}", uid);
            for f in &existing {
                println!("Note: including file:  {}", f);
            }
        }
        _ => {}
    }
    log("ok");
    std::process::exit(0);
}

fn sanitize(p: &mut Proj) {
    let fix = |s: &mut String| *s = s.replace(' ', "_").replace('\u{e9}', "e");
    for s in p.sources.iter_mut() {
        fix(s);
    }
    for st in p.steps.iter_mut() {
        for v in [&mut st.outs, &mut st.ins, &mut st.imp, &mut st.oo, &mut st.val] {
            for x in v.iter_mut() {
                fix(x);
            }
        }
    }
    for d in p.defaults.iter_mut() {
        fix(d);
    }
}

/// The manifest of `proj` with every scripted command replaced by a real one.
fn render_real(proj: &Proj, ctl: &str) -> String {
    let text = proj.render()[&proj.manifest].clone();
    let exe = self_exe();
    let mut out = String::new();
    for line in text.lines() {
        let t = line.trim_start();
        if let Some(rest) = t.strip_prefix("command = cmd") {
            let uid: usize = rest.split('v').next().and_then(|x| x.parse().ok()).unwrap_or(0);
            let s = proj.step(uid).unwrap();
            let implicit_outs = s.outs[s.nexp..].join(" ");
            let rsp = if s.rsp.is_some() { format!("{}.rsp", s.outs[0]) } else { "-".to_string() };
            out.push_str(&format!(
                "  command = {}'{}' step '{}' {} {} {} {} '{}' {} $out {} $in {}\n",
                // every other command replaces its shell (as wrapper scripts do), so that n2 itself sees how it died
                if uid % 2 == 0 { "exec " } else { "" },
                exe,
                ctl,
                uid,
                s.restat as u8,
                s.deps,
                rsp,
                proj.cmdline(s),
                s.outs.len(),
                implicit_outs,
                s.imp.join(" ")
            ));
        } else {
            out.push_str(line);
            out.push('\n');
        }
    }
    out
}

pub fn run_incr_case(case: &Case, env: &Env, focus: &str) -> CaseOut {
    let dir = env.dir.join("bbi");
    util::fresh_cwd(&dir);
    let ctl = dir.join(".ctl");
    std::fs::create_dir_all(&ctl).unwrap();
    let ctl_s = ctl.to_string_lossy().into_owned();
    let prof = Profile {
        gen: GenOpts { max_steps: 6, regen_pct: 0, phony_dirtying: false, undeclared_pool_pct: 0, rsp_pct: 45, ..GenOpts::default() },
        edits: [0, 4, 1, 1, 1, 0, 2, 1, 1, 4, 2, 1, 3, 1],
        fault_pct: if focus == "C05" { 60 } else { 15 },
        kill_pct: 0,
        interrupt_pct: 0,
        restat_pct: 0,
        repeat_pct: 20,
        explain_pct: 0,
        symlink_pct: 10,
        // the real command line carries the way dependencies are reported, so changing it changes the command
        deps_toggle: false,
        ..Profile::default()
    };
    let mut mt = Tape::new(&case.main);
    let mut proj = Proj::gen(&mut mt, &prof.gen);
    sanitize(&mut proj);
    proj.style = 0;
    let mut world = World::new(proj);
    for s in world.disk.sources.clone() {
        world.write_source(&s);
    }
    for s in world.disk.steps.clone() {
        if s.deps != 0 {
            let mut inc = vec![];
            for f in world.disk.sources.iter() {
                if !s.ins.contains(f) && !s.imp.contains(f) && mt.chance(35) {
                    inc.push(f.clone());
                }
            }
            for f in World::reachable_generated(&world.disk, &s) {
                if !s.ins.contains(&f) && !s.imp.contains(&f) && mt.chance(25) {
                    inc.push(f);
                }
            }
            world.includes.insert(s.uid, inc);
        }
    }
    let mut out = CaseOut::default();
    let mut trace = vec![];
    let mut prev_clean: Option<BTreeSet<usize>> = None;
    let mut validated = 0u64;
    let mut any_failed = false;
    let mut signal_deaths_planned = 0usize;
    let empty: Vec<u16> = vec![];
    let nrounds = case.ops.len().max(2).min(5);
    let mut prev_spec: Option<InvSpec> = None;
    for round in 0..nrounds {
        let mut t = Tape::new(case.ops.get(round).unwrap_or(&empty));
        let mut edits = vec![];
        let repeat = round > 0 && prev_spec.is_some() && t.chance(prof.repeat_pct);
        if round > 0 && !repeat {
            for _ in 0..t.below(3) {
                if let Some(d) = apply_edit(&mut world, &mut t, &prof) {
                    if d != "no edit" {
                        edits.push(d);
                    }
                }
            }
        }
        if !edits.is_empty() {
            prev_clean = None;
        }
        world.disk.style = 0;
        let text = render_real(&world.disk, &ctl_s);
        if util::read_file("build.ninja").as_deref() != Some(text.as_bytes()) {
            world.clock.write("build.ninja", text.as_bytes());
        }
        let spec = if repeat {
            let mut s = prev_spec.clone().unwrap();
            s.faults.clear();
            s
        } else {
            gen_spec(&mut t, &world, &prof)
        };
        // no failure budget here: with -k N n2 may return while commands are still running, and whether their
        // results were recorded is then a race the model cannot know (the budget itself is C05's sim part)
        let mut spec = spec;
        spec.k = None;
        prev_spec = Some(spec.clone());
        let proj = world.disk.clone();
        // control files: include sets and failures
        for e in std::fs::read_dir(&ctl).unwrap().flatten() {
            let _ = std::fs::remove_file(e.path());
        }
        for s in &proj.steps {
            std::fs::write(ctl.join(format!("includes.{}", s.uid)), world.true_includes(s.uid).join("\n")).unwrap();
            if let Some(f) = spec.faults.get(&s.uid) {
                std::fs::write(ctl.join(format!("fail.{}", s.uid)), "").unwrap();
                if *f == crate::sim::exec::Fault::FailScribble {
                    std::fs::write(ctl.join(format!("scribble.{}", s.uid)), "").unwrap();
                }
                // two failures in five are deaths from a signal (never SIGINT: that is an interruption, C16's subject)
                let sig = match (s.uid * 7 + round) % 5 {
                    0 => Some(libc::SIGSEGV),
                    1 => Some(if s.uid % 2 == 0 { libc::SIGKILL } else { libc::SIGTERM }),
                    _ => None,
                };
                if let Some(sig) = sig {
                    std::fs::write(ctl.join(format!("signal.{}", s.uid)), sig.to_string()).unwrap();
                    signal_deaths_planned += 1;
                }
            }
        }
        // model: what is dirty before the invocation
        let attr0 = world.attributed(&proj);
        let wanted = proj.wanted(&spec.targets);
        let dirty0: BTreeSet<usize> = wanted.iter().copied().filter(|u| proj.step(*u).map(|s| world.dirty(&proj, s, &attr0)).unwrap_or(false)).collect();
        let mut args: Vec<String> = vec!["-j".into(), spec.j.to_string()];
        if let Some(k) = spec.k {
            args.push("-k".into());
            args.push(k.to_string());
        }
        for (i, tg) in spec.targets.iter().enumerate() {
            args.push(respell(tg, spec.spell + i));
        }
        let o = Command::new(n2_binary()).args(&args).current_dir(&dir).stdin(Stdio::null()).output();
        out.evals += 1;
        let o = match o {
            Ok(o) => o,
            Err(e) => {
                out.viols.push(Viol::new("INFRA", "cannot-run-n2", format!("cannot run n2: {}", e)));
                return out;
            }
        };
        let text = String::from_utf8_lossy(&o.stdout).into_owned();
        let code = o.status.code();
        // n2 may return while commands are still running (failure budget reached): let them finish first
        let mut logtext = String::new();
        for _ in 0..400 {
            logtext = std::fs::read_to_string(ctl.join("log")).unwrap_or_default();
            let starts = logtext.lines().filter(|l| l.ends_with("\tstart")).count();
            let ends = logtext.lines().filter(|l| l.ends_with("\tok") || l.ends_with("\tfail")).count();
            if starts == ends {
                break;
            }
            std::thread::sleep(std::time::Duration::from_millis(10));
        }
        // what actually ran
        let mut started: Vec<usize> = vec![];
        let mut ok: Vec<usize> = vec![];
        let mut failed: Vec<usize> = vec![];
        for l in logtext.lines() {
            if let Some((u, w)) = l.split_once('\t') {
                let u: usize = u.parse().unwrap_or(usize::MAX);
                match w {
                    "start" => started.push(u),
                    "ok" => ok.push(u),
                    _ => failed.push(u),
                }
            }
        }
        // model bookkeeping for the commands that succeeded (what they reported = their include set, files that exist)
        for u in &ok {
            if let Some(s) = proj.step(*u) {
                let reported: Option<Vec<String>> = if s.deps != 0 { Some(world.true_includes(*u).into_iter().filter(|f| std::path::Path::new(f).is_file()).collect()) } else { None };
                world.record_success(&proj, s, reported.as_deref());
            }
        }
        let mut v = |p: &str, k: &str, m: String| out.viols.push(Viol::new(p, format!("bb:{}", k), format!("{} [real binary, round {}]", m, round)));
        if text.contains("panicked") || o.status.code().is_none() {
            v("C06", "binary-died", format!("n2 died: {:?} {}", o.status, String::from_utf8_lossy(&o.stderr).chars().take(300).collect::<String>()));
        }
        if text.lines().any(|l| l.starts_with("Note: including file:")) {
            v("C09", "notes-shown", "a /showIncludes note of a `deps = msvc` step is shown to the user".to_string());
        }
        // each step at most once
        let mut seen = BTreeSet::new();
        for u in &started {
            if !seen.insert(*u) {
                v("C01", "double-start", format!("step {} was started twice", u));
            }
            if !wanted.contains(u) {
                v("C18", "outside-closure", format!("step {} ran but is outside the requested closure {:?}", u, wanted));
            }
            // ran => it was out of date, or something upstream of it ran
            let upstream_ran = proj.ancestors(*u).iter().any(|a| started.contains(a));
            if !dirty0.contains(u) && !upstream_ran {
                v("C03", "ran-clean-step", format!("step {} ran although it was up to date by the manifest rule and nothing upstream of it ran", u));
            }
            if proj.ancestors(*u).iter().any(|a| failed.contains(a)) {
                v("C05", "start-after-failed-ancestor", format!("step {} ran although a producer of its inputs failed", u));
                v("C01", "start-after-failed-ancestor", format!("step {} ran although a producer of its inputs failed", u));
            }
        }
        // C01 on real processes: in the commands' own log a step's `start` comes after the `ok` of every ancestor that ran
        {
            let events: Vec<(usize, &str)> = logtext.lines().filter_map(|l| l.split_once('\t')).map(|(u, w)| (u.parse().unwrap_or(usize::MAX), w)).collect();
            for (i, (u, w)) in events.iter().enumerate() {
                if *w != "start" {
                    continue;
                }
                for a in proj.ancestors(*u) {
                    let a_started = events.iter().position(|(x, w)| *x == a && *w == "start");
                    let a_ok_before = events[..i].iter().any(|(x, w)| *x == a && *w == "ok");
                    if a_started.is_some() && !a_ok_before && !failed.contains(&a) {
                        v("C01", "started-before-producer-finished", format!("step {} started before its producer step {} had finished (order of the commands' own log lines)", u, a));
                    }
                }
            }
        }
        let expect_fail = !failed.is_empty();
        any_failed |= expect_fail;
        let missing_src = wanted.iter().any(|u| proj.step(*u).map(|s| !s.phony && !world.missing_sources(&proj, s).is_empty()).unwrap_or(false));
        let unknown_target = spec.targets.iter().any(|t| !proj.mentioned().contains(t));
        if code == Some(0) {
            if expect_fail {
                v("C05", "exit0-with-failure", format!("commands {:?} failed but n2 exited 0", failed));
            }
            let attr = world.attributed(&proj);
            let mut memo = std::collections::HashMap::new();
            for &u in &wanted {
                let Some(s) = proj.step(u) else { continue };
                if s.phony {
                    continue;
                }
                if world.dirty(&proj, s, &attr) {
                    let why = world.why_dirty(&proj, s, &attr);
                    v("C02", "skipped-dirty-step", format!("after a successful build step {} ({:?}) is still out of date ({})", u, s.outs, why));
                    continue;
                }
                for o in &s.outs {
                    let e = world.expected_content(&proj, o, &mut memo, 0);
                    if util::read_file(o).unwrap_or_default() != e {
                        v("C02", "stale-output", format!("after a successful build {} differs from what a clean build produces", o));
                        break;
                    }
                }
            }
            if let Some(prev) = &prev_clean {
                if wanted.is_subset(prev) && !started.is_empty() {
                    v("C03", "repeat-build-ran", format!("nothing changed since the last successful build, yet steps {:?} ran", started));
                }
            }
            let want_line = if ok.is_empty() { "n2: no work to do".to_string() } else { format!("n2: ran {} task{}, now up to date", ok.len(), if ok.len() == 1 { "" } else { "s" }) };
            if text.lines().last() != Some(want_line.as_str()) {
                v("C19", "summary", format!("last line {:?}, expected {:?}", text.lines().last(), want_line));
            }
            validated += 1;
            let all_clean = wanted.iter().all(|u| proj.step(*u).map(|s| !world.dirty(&proj, s, &attr)).unwrap_or(true));
            prev_clean = if all_clean { Some(wanted.clone()) } else { None };
        } else {
            prev_clean = None;
            if !expect_fail && !missing_src && !unknown_target {
                v("C05", "failure-without-cause", format!("n2 exited {:?} although no command failed: {:?}", code, text.lines().rev().take(3).collect::<Vec<_>>()));
            } else {
                validated += 1;
            }
        }
        trace.push(json!({"edits": edits, "args": args, "exit": code, "started": started, "failed": failed}));
        if !ok.is_empty() && ok.len() < wanted.iter().filter(|u| proj.step(**u).map(|s| !s.phony).unwrap_or(false)).count() {
            out.nontrivial = true;
        }
        if out.viols.iter().any(|x| x.prop == focus) {
            break;
        }
    }
    out.viols.sort_by_key(|x| x.prop != focus);
    out.classes = vec!["bb-incr".into()];
    if any_failed {
        out.classes.push("bb-incr:command-failed".into());
    }
    if signal_deaths_planned > 0 {
        out.classes.push("bb-incr:signal-death-planned".into());
    }
    out.fp = fnv_str(&format!("{:?}", trace));
    out.desc = json!({"manifest": render_real(&world.disk, "<ctl>").replace(&self_exe(), "n2check"), "history": trace, "invocations_agreeing_with_the_model": validated});
    out.validated = validated;
    let _ = std::env::set_current_dir("/");
    out
}
