//! C16: commands run as written and their output is shown intact (real binary, real processes).

use super::agent::{parse_plan, record};
use super::*;
use crate::engine::*;
use crate::tape::{fnv_str, Case, Tape};
use crate::util;
use serde_json::{json, Value};
use std::process::{Command, Stdio};

#[derive(Clone, Debug)]
struct Task {
    id: usize,
    plan: String,
    /// exit code of the agent
    code: i32,
    /// the shell kills itself with this signal after the agent ran
    signal: Option<&'static str>,
    out: String,
    rsp: Option<(String, String)>,
    /// shell command as n2 must pass it to /bin/sh -c
    cmd: String,
    /// stdout of the agent goes elsewhere (redirected) and is not expected in n2's output
    stdout_hidden: bool,
    /// the command's exit status is not the agent's (pipeline)
    status_masked: bool,
    ins: Vec<String>,
    pool: Option<usize>,
    /// a later command deliberately removes this task's output directory
    out_removed: bool,
    /// `hide_success = 1`: output is shown only if the command fails
    hide_success: bool,
}

const SIZES: [usize; 12] = [0, 1, 2, 100, 4095, 4096, 4097, 8192, 65535, 65536, 65537, 200_000];

fn storm_tasks(t: &mut Tape, logdir: &str) -> Vec<Task> {
    let n = 40 + t.below(40);
    let exe = self_exe();
    let q = |s: &str| format!("'{}'", s.replace('\'', "'\\''"));
    (0..n)
        .map(|id| {
            let out = format!("s{}", id);
            let cmd = format!("{} agent {} {} '1:10' 0 {} -", q(&exe), q(logdir), id, q(&out));
            Task { id, plan: "1:10".into(), code: 0, signal: None, out, rsp: None, cmd, stdout_hidden: false, status_masked: false, ins: vec![], pool: None, out_removed: false, hide_success: false }
        })
        .collect()
}

fn gen_tasks(t: &mut Tape, logdir: &str, big: bool) -> Vec<Task> {
    let n = 1 + t.below(12);
    let exe = self_exe();
    let mut tasks = vec![];
    for id in 0..n {
        let nrec = t.weighted(&[1, 4, 3, 2, 2]);
        let mut plan = vec![];
        for _ in 0..nrec {
            let fd = 1 + t.below(2);
            let len = if big && t.chance(35) { SIZES[t.below(SIZES.len())] } else { t.below(300) };
            plan.push(format!("{}:{}", fd, len));
        }
        if t.chance(60) {
            plan.insert(t.below(plan.len() + 1), format!("0:{}", 5 + t.below(60)));
        }
        let plan = plan.join(",");
        let pool = if t.chance(35) { Some(t.below(2)) } else { None };
        let hide_success = t.chance(20);
        let (mut code, mut signal) = (0, None);
        match t.weighted(&[12, 4, 2]) {
            1 => code = [1, 2, 3, 42, 126, 127, 128, 130, 255][t.below(9)],
            2 => signal = Some(["TERM", "KILL", "SEGV", "HUP", "USR1"][t.below(5)]),
            _ => {}
        }
        let out = match t.below(4) {
            0 => format!("o{}", id),
            1 => format!("sub/o{}", id),
            2 => format!("deep/er/dir{}/o", id),
            _ => format!("o {}", id),
        };
        let ins: Vec<String> = if t.chance(50) { vec!["in1".into(), "in 2".into()][..1 + t.below(2)].to_vec() } else { vec![] };
        let rsp = if t.chance(25) {
            let content = match t.below(3) {
                0 => format!("plain {} $in", id),
                1 => "two  spaces\tand $$dollar $in_newline".to_string(),
                _ => format!("--out=$out --in $in_newline end{}", id),
            };
            Some((format!("{}.rsp", out), content))
        } else {
            None
        };
        // extra arguments exercising shell quoting; the agent ignores them but logs argv
        let extras = ["plain", "'single quoted $HOME arg'", "\"double $USER quoted\"", "\"with \\\"escaped\\\" quotes\"", "$HOME", "a\\ b", "'it'\\''s'", "\"$((1+2))\"", "x=1", "--flag='a b'", "\\$literal", "\u{e9}\u{20ac}"];
        let mut extra = String::new();
        for _ in 0..t.below(4) {
            extra.push(' ');
            extra.push_str(extras[t.below(extras.len())]);
        }
        let q = |s: &str| format!("'{}'", s.replace('\'', "'\\''"));
        let base = format!("{} agent {} {} {} {} {} {}{}", q(&exe), q(logdir), id, q(&plan), code, q(&out), q(&rsp.as_ref().map(|r| r.0.clone()).unwrap_or("-".into())), extra);
        let (mut stdout_hidden, mut status_masked) = (false, false);
        let mut cmd = match t.weighted(&[6, 2, 2, 2, 1, 1]) {
            0 => base.clone(),
            1 => format!("{} && true", base),
            2 => format!("X{}=1 {}", id, base),
            3 => format!("({})", base),
            4 if code == 0 && signal.is_none() => {
                status_masked = true;
                format!("{} 2>&1 | cat", base)
            }
            5 if code == 0 => {
                stdout_hidden = true;
                format!("{} > {}", base, q(&format!("{}.stdout", out)))
            }
            _ => base.clone(),
        };
        if let Some(sig) = signal {
            // the shell itself must die from the signal: a child killing only itself is an ordinary exit status
            cmd = format!("{} ; kill -{} $$", cmd, sig);
        }
        tasks.push(Task { id, plan, code, signal, out, rsp, cmd, stdout_hidden, status_masked, ins, pool, out_removed: false, hide_success });
    }
    if t.chance(30) {
        // a directory that is created for one step, removed by the next step's command and needed again by a third:
        // output directories must exist whenever a command starts, not just the first time
        let q = |s: &str| format!("'{}'", s.replace('\'', "'\\''"));
        let base = tasks.len();
        let d = format!("churn{}", base);
        let mk = |id: usize, out: &str, ins: Vec<String>, tail: &str| {
            let cmd = format!("{} agent {} {} '1:10' 0 {} -{}", q(&exe), q(logdir), id, q(out), tail);
            Task { id, plan: "1:10".into(), code: 0, signal: None, out: out.to_string(), rsp: None, cmd, stdout_hidden: false, status_masked: false, ins, pool: None, out_removed: false, hide_success: false }
        };
        let mut a = mk(base, &format!("{}/first", d), vec![], "");
        a.out_removed = true;
        let b = mk(base + 1, &format!("mid{}", base), vec![a.out.clone()], &format!(" && cp {}/first keep{} && rm -rf {}", d, base, d));
        let c = mk(base + 2, &format!("{}/second", d), vec![b.out.clone()], "");
        tasks.push(a);
        tasks.push(b);
        tasks.push(c);
    }
    tasks
}

const POOL_DEPTHS: [usize; 2] = [1, 2];

fn render(tasks: &[Task]) -> String {
    let mut m = String::new();
    for (i, d) in POOL_DEPTHS.iter().enumerate() {
        m += &format!("pool pl{}\n  depth = {}\n", i, d);
    }
    for t in tasks {
        m += &format!("rule r{}\n  command = {}\n  description = T{}\n", t.id, ninja_escape_value(&t.cmd), t.id);
        if let Some((p, c)) = &t.rsp {
            m += &format!("  rspfile = {}\n  rspfile_content = {}\n", p, c);
        }
        if let Some(p) = t.pool {
            m += &format!("  pool = pl{}\n", p);
        }
        if t.hide_success {
            m += "  hide_success = 1\n";
        }
        m += &format!("build {}: r{}", crate::sim::model::esc(&t.out), t.id);
        for i in &t.ins {
            m += &format!(" {}", crate::sim::model::esc(i));
        }
        m += "\n";
    }
    m
}

fn expected_rsp(t: &Task) -> Option<String> {
    t.rsp.as_ref().map(|(_, c)| c.replace("$$", "\u{1}").replace("$in_newline", &t.ins.join("\n")).replace("$in", &t.ins.join(" ")).replace("$out", &t.out).replace('\u{1}', "$"))
}

/// Parse n2's stdout into (task, fd, seq, payload) records with their byte positions.
fn parse_records(out: &[u8]) -> Result<Vec<(usize, usize, usize, usize, usize)>, String> {
    let mut v = vec![];
    let mut i = 0;
    while i < out.len() {
        if out[i] != b'@' {
            i += 1;
            continue;
        }
        let start = i;
        let mut fields = vec![];
        let mut j = i + 1;
        for _ in 0..4 {
            let k = j;
            while j < out.len() && out[j].is_ascii_digit() {
                j += 1;
            }
            if j >= out.len() || out[j] != b':' || j == k {
                return Err(format!("malformed record header at byte {}: {:?}", start, String::from_utf8_lossy(&out[start..(start + 30).min(out.len())])));
            }
            fields.push(String::from_utf8_lossy(&out[k..j]).parse::<usize>().unwrap());
            j += 1;
        }
        let len = fields[3];
        if j + len > out.len() {
            return Err(format!("record at byte {} claims {} payload bytes but only {} follow", start, len, out.len() - j));
        }
        v.push((fields[0], fields[1], fields[2], j, len));
        i = j + len;
    }
    Ok(v)
}

pub struct C16;

impl C16 {
    pub fn run_case(&self, case: &Case, env: &Env) -> CaseOut {
        let dir = env.dir.join("bb");
        util::fresh_cwd(&dir);
        let logdir = dir.join("agentlog");
        let drydir = dir.join("drylog");
        std::fs::create_dir_all(&logdir).unwrap();
        std::fs::create_dir_all(&drydir).unwrap();
        let mut t = Tape::new(&case.main);
        let big = t.chance(60);
        // now and then a storm of many trivial commands that all become ready at once: spawning is concurrent, and
        // whatever one thread has open while another one forks must not reach the other's command
        let storm = t.chance(12);
        let tasks = if storm { storm_tasks(&mut t, &logdir.to_string_lossy()) } else { gen_tasks(&mut t, &logdir.to_string_lossy(), big) };
        let j = if storm { 64 } else { [1, 2, 4, 8, 16][t.below(5)] };
        std::fs::write("in1", "1").unwrap();
        std::fs::write("in 2", "2").unwrap();
        let manifest = render(&tasks);
        std::fs::write("build.ninja", &manifest).unwrap();
        // a response file left behind by an earlier build (longer than the new content) must be replaced, not patched
        for t in &tasks {
            if let Some((p, _)) = &t.rsp {
                if t.id % 4 == 1 {
                    // ... or one of exactly the size of the new content (an edited flag, a re-ordered list)
                    if let Some(exp) = expected_rsp(t) {
                        if let Some(par) = std::path::Path::new(p).parent() {
                            if !par.as_os_str().is_empty() {
                                let _ = std::fs::create_dir_all(par);
                            }
                        }
                        let stale: String = exp.chars().map(|c| if c == '\n' { '\n' } else if c.is_ascii() { '#' } else { c }).collect();
                        let _ = std::fs::write(p, stale);
                    }
                }
                if t.id % 2 == 0 {
                    if let Some(par) = std::path::Path::new(p).parent() {
                        if !par.as_os_str().is_empty() {
                            let _ = std::fs::create_dir_all(par);
                        }
                    }
                    let _ = std::fs::write(p, "stale response file content from an earlier build, deliberately much longer than anything the manifest asks for ".repeat(3));
                }
            }
        }
        let mut out = CaseOut { evals: 1, ..Default::default() };
        let mut v = |k: &str, m: String| out.viols.push(Viol::new("C16", k, m));
        let o = Command::new(n2_binary()).args(["-j", &j.to_string()]).current_dir(&dir).stdin(Stdio::null()).env_remove("N2AGENT_DRY").output();
        let o = match o {
            Ok(o) => o,
            Err(e) => {
                out.viols.push(Viol::new("INFRA", "cannot-run-n2", format!("cannot run {}: {}", n2_binary().display(), e)));
                return out;
            }
        };
        let stdout = o.stdout.clone();
        let text = String::from_utf8_lossy(&stdout).into_owned();
        if text.contains("panicked") || !o.stderr.is_empty() && String::from_utf8_lossy(&o.stderr).contains("panicked") {
            v("panic", format!("n2 panicked: {}", String::from_utf8_lossy(&o.stderr)));
        }
        // ---- exit status and summary
        let failing: Vec<&Task> = tasks.iter().filter(|t| (t.code != 0 && !t.status_masked) || t.signal.is_some()).collect();
        let code = o.status.code();
        if failing.is_empty() {
            if code != Some(0) {
                v("exit-status", format!("all commands succeed but n2 exited {:?}; stdout tail: {:?}", code, text.chars().rev().take(200).collect::<String>().chars().rev().collect::<String>()));
            }
            let want = format!("n2: ran {} task{}, now up to date", tasks.len(), if tasks.len() == 1 { "" } else { "s" });
            if text.lines().last() != Some(want.as_str()) {
                v("summary", format!("last line {:?}, expected {:?}", text.lines().last(), want));
            }
        } else {
            if code != Some(1) {
                v("exit-status", format!("{} command(s) fail but n2 exited {:?}", failing.len(), code));
            }
            for f in &failing {
                if !text.contains(&format!("failed: T{}\n", f.id)) {
                    v("no-failed-line", format!("task {} fails (code {}, signal {:?}) but there is no `failed: T{}` line", f.id, f.code, f.signal, f.id));
                }
                if let Some(sig) = f.signal {
                    let num = match sig {
                        "TERM" => 15,
                        "KILL" => 9,
                        "SEGV" => 11,
                        "HUP" => 1,
                        _ => 10,
                    };
                    if !text.contains(&format!("signal {}", num)) {
                        v("no-signal-note", format!("task {} died from SIG{} but `signal {}` is not shown", f.id, sig, num));
                    }
                }
            }
        }
        for t in tasks.iter().filter(|t| !failing.iter().any(|f| f.id == t.id)) {
            if text.contains(&format!("failed: T{}\n", t.id)) {
                v("spurious-failure", format!("task {} exits 0 but n2 reports it failed", t.id));
            }
        }
        // ---- output accounting
        match parse_records(&stdout) {
            Err(e) => v("garbled-output", e),
            Ok(recs) => {
                for t in &tasks {
                    let plan = parse_plan(&t.plan);
                    let hidden_all = t.hide_success && !failing.iter().any(|f| f.id == t.id);
                    let expect: Vec<(usize, usize, Vec<u8>)> = plan.iter().enumerate().filter(|(_, (fd, _))| !hidden_all && *fd != 0 && !(t.stdout_hidden && *fd == 1)).map(|(seq, (fd, len))| (*fd, seq, record(t.id, *fd, seq, *len, seq + 1 == plan.len()))).collect();
                    let mine: Vec<(usize, &(usize, usize, usize, usize, usize))> = recs.iter().enumerate().filter(|(_, r)| r.0 == t.id).collect();
                    if mine.len() != expect.len() {
                        v("record-count", format!("task {} wrote {} records, n2 shows {} of them (plan {}, {} bytes of stdout)", t.id, expect.len(), mine.len(), t.plan, stdout.len()));
                        continue;
                    }
                    for ((fd, seq, bytes), (_, r)) in expect.iter().zip(&mine) {
                        let hdr = format!("@{}:{}:{}:{}:", t.id, fd, seq, r.4);
                        let mut got = hdr.into_bytes();
                        got.extend_from_slice(&stdout[r.3..r.3 + r.4]);
                        if (r.1, r.2) != (*fd, *seq) || got != *bytes {
                            v("record-content", format!("task {}: record {} of fd {} is not shown intact / in order (got header fd {} seq {} len {})", t.id, seq, fd, r.1, r.2, r.4));
                            break;
                        }
                    }
                    // contiguity: the records of one task are adjacent in the record sequence, and nothing is printed between them
                    if let (Some(first), Some(last)) = (mine.first(), mine.last()) {
                        if last.0 - first.0 + 1 != mine.len() {
                            v("interleaved-output", format!("output of task {} is interleaved with output of another task", t.id));
                        }
                        for w in mine.windows(2) {
                            let end = w[0].1 .3 + w[0].1 .4;
                            let next_hdr_len = format!("@{}:{}:{}:{}:", t.id, w[1].1 .1, w[1].1 .2, w[1].1 .4).len();
                            if w[1].1 .3 - next_hdr_len != end {
                                v("gap-in-output", format!("something is printed between two records of task {}", t.id));
                                break;
                            }
                        }
                    }
                }
                let unknown = recs.iter().filter(|r| r.0 >= tasks.len()).count();
                if unknown > 0 {
                    v("unknown-records", format!("{} records of unknown tasks", unknown));
                }
            }
        }
        // ---- what the commands observed
        let dir_s = std::fs::canonicalize(&dir).unwrap_or(dir.clone()).to_string_lossy().into_owned();
        for t in &tasks {
            let log: Option<Value> = std::fs::read(logdir.join(format!("{}.json", t.id))).ok().and_then(|b| serde_json::from_slice(&b).ok());
            let Some(log) = log else {
                v("command-not-run", format!("task {} left no log: its command was not run as written: {}", t.id, t.cmd));
                continue;
            };
            if std::fs::canonicalize(log["cwd"].as_str().unwrap_or("")).map(|p| p.to_string_lossy().into_owned()).unwrap_or_default() != dir_s {
                v("cwd", format!("task {} ran in {:?}, the build directory is {:?}", t.id, log["cwd"], dir_s));
            }
            let si = &log["stdin"];
            if !(si["chr"] == true && si["major"] == 1 && si["minor"] == 3 && si["read"] == 0) {
                v("stdin", format!("task {}: stdin is not /dev/null at EOF: {}", t.id, si));
            }
            let fds: Vec<i64> = log["fds"].as_array().map(|a| a.iter().filter_map(|x| x[0].as_i64()).collect()).unwrap_or_default();
            let extra: Vec<&Value> = log["fds"].as_array().map(|a| a.iter().filter(|x| x[0].as_i64().unwrap_or(0) > 2 && !x[1].as_str().unwrap_or("").contains("/proc/")).collect()).unwrap_or_default();
            if !extra.is_empty() || !(fds.contains(&0) && fds.contains(&1) && fds.contains(&2)) {
                v("fd-leak", format!("task {} sees descriptors {}", t.id, log["fds"]));
            }
            if log["outdir_exists"] != true {
                v("outdir", format!("task {}: the directory of its output {} did not exist when it started", t.id, t.out));
            }
            if let Some(exp) = expected_rsp(t) {
                if log["rsp"].as_str() != Some(exp.as_str()) {
                    v("rspfile", format!("task {}: rspfile content {:?}, expected {:?}", t.id, log["rsp"], exp));
                }
            }
            // argv differential: what /bin/sh -c <command> gives when run directly
            let d = Command::new("/bin/sh").arg("-c").arg(&t.cmd).current_dir(&dir).env("N2AGENT_DRY", &drydir).stdin(Stdio::null()).stdout(Stdio::null()).stderr(Stdio::null()).status();
            let _ = d;
            let dry: Option<Value> = std::fs::read(drydir.join(format!("{}.json", t.id))).ok().and_then(|b| serde_json::from_slice(&b).ok());
            match dry {
                Some(dry) if dry["argv"] == log["argv"] => {}
                Some(dry) => v("argv", format!("task {}: argv under n2 {} differs from argv under `/bin/sh -c` {}", t.id, log["argv"], dry["argv"])),
                None => v("argv-reference", format!("task {}: reference run of {:?} produced no argv", t.id, t.cmd)),
            }
            if !failing.iter().any(|f| f.id == t.id) && !t.out_removed && !std::path::Path::new(&t.out).exists() {
                v("output-missing", format!("task {} succeeded but its output {} is missing", t.id, t.out));
            }
        }
        // ---- C04 on the real binary: the commands' own timestamps bracket a part of their lifetime, so measured
        // overlap is a lower bound of the true overlap
        let mut spans: Vec<(u64, u64, Option<usize>)> = vec![];
        for t in &tasks {
            let st: Option<u64> = std::fs::read(logdir.join(format!("{}.json", t.id))).ok().and_then(|b| serde_json::from_slice::<Value>(&b).ok()).and_then(|l| l["start_ns"].as_u64());
            let en: Option<u64> = std::fs::read_to_string(logdir.join(format!("{}.end", t.id))).ok().and_then(|s| s.trim().parse().ok());
            if let (Some(s), Some(e)) = (st, en) {
                spans.push((s, e, t.pool));
            }
        }
        let overlap = |sel: &dyn Fn(&(u64, u64, Option<usize>)) -> bool| -> usize {
            let mut ev: Vec<(u64, i32)> = vec![];
            for sp in spans.iter().filter(|s| sel(s)) {
                ev.push((sp.0, 1));
                ev.push((sp.1, -1));
            }
            ev.sort();
            let (mut cur, mut max) = (0i32, 0i32);
            for (_, d) in ev {
                cur += d;
                max = max.max(cur);
            }
            max as usize
        };
        let all = overlap(&|_| true);
        if all > j {
            out.viols.push(Viol::new("C04", "bb:j-exceeded", format!("{} commands were running at the same time with -j {}", all, j)));
        }
        for (i, d) in POOL_DEPTHS.iter().enumerate() {
            let o = overlap(&|s| s.2 == Some(i));
            if o > *d {
                out.viols.push(Viol::new("C04", "bb:pool-exceeded", format!("{} commands of pool pl{} (depth {}) were running at the same time", o, i, d)));
            }
        }
        let total: usize = tasks.iter().map(|t| parse_plan(&t.plan).iter().filter(|p| p.0 != 0).map(|p| p.1).sum::<usize>()).sum();
        let heavy = tasks.iter().filter(|t| parse_plan(&t.plan).iter().filter(|p| p.0 != 0).map(|p| p.1).sum::<usize>() >= 4096).count();
        if all >= 2 {
            out.classes.push("overlapping-commands".into());
        }
        if all == j && j >= 2 {
            out.classes.push("j-reached".into());
        }
        out.nontrivial = (heavy >= 2 && j >= 2) || !failing.is_empty();
        out.classes.push(format!("j{}", j));
        if heavy >= 2 {
            out.classes.push("two-tasks-over-4KiB".into());
        }
        if !failing.is_empty() {
            out.classes.push("failure-or-signal".into());
        }
        if total > 65536 {
            out.classes.push("over-64KiB-total".into());
        }
        out.fp = fnv_str(&manifest);
        out.desc = json!({"j": j, "manifest": manifest.replace(&self_exe(), "n2check"), "output_bytes": total, "exit": code});
        let _ = std::env::set_current_dir("/");
        out
    }

    /// SIGINT delivered to n2 itself while a command that ignores it keeps running and then succeeds: the build was
    /// interrupted, so n2 must not claim success (non-zero exit, no "now up to date").
    fn run_interrupt_n2(&self, case: &Case, env: &Env) -> CaseOut {
        let dir = env.dir.join("bbk");
        util::fresh_cwd(&dir);
        let mut t = Tape::new(&case.main);
        let n = 1 + t.below(3);
        let mut m = String::new();
        for id in 0..n {
            m += &format!("rule r{}\n  command = trap '' INT; sleep 0.6; touch o{}\n  description = T{}\nbuild o{}: r{}\n", id, id, id, id, id);
        }
        std::fs::write("build.ninja", &m).unwrap();
        let mut out = CaseOut { evals: 1, nontrivial: true, ..Default::default() };
        let child = Command::new(n2_binary()).args(["-j", "4"]).current_dir(&dir).stdin(Stdio::null()).stdout(Stdio::piped()).stderr(Stdio::piped()).spawn();
        let Ok(child) = child else {
            out.viols.push(Viol::new("INFRA", "cannot-run-n2", "cannot run the n2 binary".to_string()));
            return out;
        };
        std::thread::sleep(std::time::Duration::from_millis(200 + t.below(200) as u64));
        unsafe {
            libc::kill(child.id() as i32, libc::SIGINT);
        }
        let o = child.wait_with_output();
        let Ok(o) = o else { return out };
        let text = String::from_utf8_lossy(&o.stdout).into_owned();
        use std::os::unix::process::ExitStatusExt;
        // n2 either dies from the (second-chance) signal or finishes with a non-zero status; it must not report success
        if o.status.code() == Some(0) || text.contains("now up to date") {
            out.viols.push(Viol::new("C16", "interrupt-ignored", format!("n2 received SIGINT during the build but exited {:?} with {:?}", o.status.code(), text.lines().last())));
            out.viols.push(Viol::new("C05", "interrupt-ignored", format!("n2 received SIGINT during the build but exited {:?} with {:?}", o.status.code(), text.lines().last())));
        }
        let _ = o.status.signal();
        out.fp = fnv_str(&format!("sigint-n2 {}", m));
        out.classes = vec!["sigint-to-n2".into()];
        out.desc = json!({"manifest": m, "exit": o.status.code(), "stdout": text});
        let _ = std::env::set_current_dir("/");
        out
    }

    /// SIGINT: the shell dies from SIGINT => `interrupted:`, exit 1, and with -j1 nothing starts afterwards.
    fn run_interrupt(&self, case: &Case, env: &Env) -> CaseOut {
        if case.main.first().copied().unwrap_or(0) % 4 == 0 {
            return self.run_interrupt_n2(case, env);
        }
        let dir = env.dir.join("bbi");
        util::fresh_cwd(&dir);
        let logdir = dir.join("agentlog");
        std::fs::create_dir_all(&logdir).unwrap();
        let mut t = Tape::new(&case.main);
        let n = 2 + t.below(5);
        let victim = t.below(n);
        let exe = self_exe();
        let mut m = String::new();
        for id in 0..n {
            let plan = format!("1:{}", t.below(5000));
            let mut cmd = format!("'{}' agent '{}' {} '{}' 0 o{} -", exe, logdir.to_string_lossy(), id, plan, id);
            if id == victim {
                cmd += " ; kill -INT $$";
            }
            m += &format!("rule r{}\n  command = {}\n  description = T{}\nbuild o{}: r{}\n", id, ninja_escape_value(&cmd), id, id, id);
        }
        std::fs::write("build.ninja", &m).unwrap();
        let mut out = CaseOut { evals: 1, nontrivial: true, ..Default::default() };
        let mut v = |k: &str, m: String| out.viols.push(Viol::new("C16", k, m));
        let o = Command::new(n2_binary()).args(["-j", "1"]).current_dir(&dir).stdin(Stdio::null()).env_remove("N2AGENT_DRY").output();
        let Ok(o) = o else {
            out.viols.push(Viol::new("INFRA", "cannot-run-n2", "cannot run the n2 binary".to_string()));
            return out;
        };
        let text = String::from_utf8_lossy(&o.stdout).into_owned();
        if o.status.code() != Some(1) {
            v("interrupt-exit", format!("a command was interrupted but n2 exited {:?}", o.status.code()));
        }
        if !text.contains(&format!("interrupted: T{}\n", victim)) {
            v("no-interrupted-line", format!("no `interrupted: T{}` line in {:?}", victim, text.chars().take(400).collect::<String>()));
        }
        let start = |id: usize| -> Option<u64> { std::fs::read(logdir.join(format!("{}.json", id))).ok().and_then(|b| serde_json::from_slice::<Value>(&b).ok()).and_then(|l| l["start_ns"].as_u64()) };
        if let Some(tv) = start(victim) {
            for id in 0..n {
                if id != victim {
                    if let Some(ts) = start(id) {
                        if ts > tv {
                            v("started-after-interrupt", format!("task {} started after task {} was interrupted (-j 1)", id, victim));
                        }
                    }
                }
            }
        } else {
            v("command-not-run", "the interrupted command left no log".into());
        }
        if text.contains("now up to date") {
            v("interrupt-success-message", "n2 claims success after an interruption".into());
        }
        out.fp = fnv_str(&m);
        out.classes = vec!["sigint".into()];
        out.desc = json!({"manifest": m.replace(&exe, "n2check"), "victim": victim, "exit": o.status.code()});
        let _ = std::env::set_current_dir("/");
        out
    }
}

impl Check for C16 {
    fn id(&self) -> &'static str {
        "C16"
    }
    fn rule(&self) -> String {
        "the real n2 binary (hooks off) builds 1-12 independent tasks at -j 1/2/4/8/16; every command is this harness in `agent` mode behind a generated shell string (quoting, $$-escapes, env prefixes, subshells, pipelines, redirections), with a write plan of 0-4 records on stdout/stderr sized around 0, 1, 4 KiB and 64 KiB boundaries up to 200 000 bytes, exit codes 0..255 or a terminating signal delivered to the shell itself, optional rspfile, outputs in not-yet-existing directories. Oracle: every self-describing record appears exactly once, intact, in order, with one task's records adjacent and gap-free; argv equals what `/bin/sh -c <same string>` gives directly; cwd = build dir; stdin is /dev/null at EOF; no descriptors beyond 0-2; rspfile content and output directory present at start; exit 0 => counted in `ran N tasks`, anything else => `failed:` and exit 1; SIGINT => `interrupted:`, exit 1, nothing starts afterwards (-j 1). Non-trivial: >= 2 tasks with >= 4096 bytes each at -j >= 2, or a failing/signalled task; distinct by manifest".into()
    }
    fn assumptions(&self) -> Vec<String> {
        vec!["interleavings of real processes are sampled, not controlled".into(), "the shell must die from the signal itself (`kill -S $$`); a child killing only itself is an ordinary failure status".into()]
    }
    fn max_shrink_iters(&self) -> u32 {
        120
    }
    fn parts(&self, tier: Tier) -> Vec<Part> {
        vec![Part { name: "builds", kind: PartKind::Random { cases: tier.pick(192, 6000), main: 220, ops: 0, oplen: 0, sched: 0 } }, Part { name: "sigint", kind: PartKind::Random { cases: tier.pick(32, 800), main: 30, ops: 0, oplen: 0, sched: 0 } }]
    }
    fn run_random(&mut self, part: &str, case: &Case, env: &mut Env) -> CaseOut {
        match part {
            "sigint" => self.run_interrupt(case, env),
            _ => self.run_case(case, env),
        }
    }
}
