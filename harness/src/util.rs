//! Process-level plumbing: stdout capture, panic recording, logical clock.

use std::cell::RefCell;
use std::io::{Read, Seek, SeekFrom, Write};
use std::os::fd::AsRawFd;
use std::path::Path;
use std::time::{Duration, SystemTime, UNIX_EPOCH};

thread_local! {
    static LASTPANIC: RefCell<Option<(String, String)>> = RefCell::new(None);
    static CAPTURE: RefCell<Option<std::fs::File>> = RefCell::new(None);
}

/// Install a quiet panic hook that remembers (message, file) of the last panic.
pub fn install_panic_hook() {
    std::panic::set_hook(Box::new(|info| {
        if info.payload().downcast_ref::<n2::verif::Death>().is_some() {
            return;
        }
        let msg = if let Some(s) = info.payload().downcast_ref::<&str>() {
            s.to_string()
        } else if let Some(s) = info.payload().downcast_ref::<String>() {
            s.clone()
        } else {
            "<non-string panic>".to_string()
        };
        // n2 builds strs from unvalidated bytes: a message quoting one may not be valid UTF-8
        let msg = String::from_utf8_lossy(msg.as_bytes()).into_owned();
        let file = info.location().map(|l| l.file().to_string()).unwrap_or_default();
        if std::env::var("N2CHECK_VERBOSE").is_ok() {
            eprintln!("panic: {} at {:?}", msg, info.location());
        }
        LASTPANIC.with(|l| *l.borrow_mut() = Some((msg, file)));
    }));
}

pub fn take_panic() -> Option<(String, String)> {
    LASTPANIC.with(|l| l.borrow_mut().take())
}

/// Short stable signature of a panic: file name + message with digits and quoted text removed.
pub fn panic_key(msg: &str, file: &str) -> String {
    let f = file.rsplit('/').next().unwrap_or(file);
    let mut m = String::new();
    let mut in_quote = false;
    for c in msg.chars() {
        if c == '"' || c == '`' || c == '\'' {
            in_quote = !in_quote;
            continue;
        }
        if in_quote {
            continue;
        }
        if c.is_ascii_digit() {
            if !m.ends_with('#') {
                m.push('#');
            }
        } else if c.is_whitespace() {
            if !m.ends_with('_') {
                m.push('_');
            }
        } else {
            m.push(c);
        }
        if m.len() > 60 {
            break;
        }
    }
    format!("panic@{}:{}", f, m)
}

/// Redirect fd 1 into an unlinked scratch file so that whatever n2 prints can be read back.
pub fn capture_stdout(dir: &Path) {
    let path = dir.join(format!("stdout.{}", std::process::id()));
    let f = std::fs::OpenOptions::new().create(true).read(true).write(true).truncate(true).open(&path).unwrap();
    let _ = std::fs::remove_file(&path);
    unsafe {
        libc::dup2(f.as_raw_fd(), 1);
    }
    CAPTURE.with(|c| *c.borrow_mut() = Some(f));
}

/// Everything printed to stdout since the last call.
pub fn take_stdout() -> String {
    let _ = std::io::stdout().flush();
    CAPTURE.with(|c| {
        let mut c = c.borrow_mut();
        let Some(f) = c.as_mut() else { return String::new() };
        let mut buf = Vec::new();
        let _ = f.seek(SeekFrom::Start(0));
        let _ = f.read_to_end(&mut buf);
        let _ = f.set_len(0);
        let _ = f.seek(SeekFrom::Start(0));
        // fd 1 shares the offset with f (dup2), and is not O_APPEND: reset done above.
        String::from_utf8_lossy(&buf).into_owned()
    })
}

/// Logical clock: every write or touch gets a strictly larger mtime; no wall clock anywhere.
pub struct Clock(pub u64);
pub const T0: u64 = 1_600_000_000;
impl Clock {
    pub fn tick(&mut self) -> SystemTime {
        self.0 += 1;
        // 1 ms steps with a non-zero sub-second part exercise the full timestamp.
        UNIX_EPOCH + Duration::from_millis(T0 * 1000 + self.0 * 1001)
    }
    pub fn write(&mut self, path: &str, content: &[u8]) {
        if let Some(p) = Path::new(path).parent() {
            if !p.as_os_str().is_empty() {
                std::fs::create_dir_all(p).unwrap();
            }
        }
        std::fs::write(path, content).unwrap_or_else(|e| panic!("harness write {}: {}", path, e));
        self.touch(path);
    }
    pub fn touch(&mut self, path: &str) {
        let t = self.tick();
        set_mtime(path, t);
    }
    /// New content with an mtime older than anything written so far.
    pub fn write_backdated(&mut self, path: &str, content: &[u8]) {
        std::fs::write(path, content).unwrap();
        self.0 += 1;
        let t = UNIX_EPOCH + Duration::from_millis((T0 - 100_000) * 1000 + self.0 * 1001);
        set_mtime(path, t);
    }
}

pub fn set_mtime(path: &str, t: SystemTime) {
    let f = std::fs::File::options().write(true).open(path).unwrap_or_else(|e| panic!("harness open {}: {}", path, e));
    f.set_modified(t).unwrap();
}

pub fn mtime(path: &str) -> Option<SystemTime> {
    std::fs::metadata(path).ok().map(|m| m.modified().unwrap())
}

pub fn read_file(path: &str) -> Option<Vec<u8>> {
    std::fs::read(path).ok()
}

/// Remove everything inside `dir` and make it the cwd.
pub fn fresh_cwd(dir: &Path) {
    let _ = std::env::set_current_dir("/");
    let _ = std::fs::remove_dir_all(dir);
    std::fs::create_dir_all(dir).unwrap();
    std::env::set_current_dir(dir).unwrap();
}
