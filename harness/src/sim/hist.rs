//! Histories: edits interleaved with n2 invocations, interpreted against the
//! reference model; oracles that are evaluated after each invocation.

use super::exec::*;
use super::model::*;
use super::world::*;
use crate::engine::Viol;
use crate::tape::{Case, OwnedTape, Tape};
use crate::util;
use n2::verif::Outcome;
use serde_json::{json, Value};
use std::cell::RefCell;
use std::collections::{BTreeMap, BTreeSet, HashMap};
use std::path::Path;
use std::rc::Rc;

#[derive(Clone, Debug)]
pub struct Profile {
    pub gen: GenOpts,
    /// weights of edit kinds, see `EDIT_NAMES`
    pub edits: [usize; 14],
    pub max_edits: usize,
    pub fault_pct: usize,
    pub interrupt_pct: usize,
    pub kill_pct: usize,
    pub restat_pct: usize,
    pub use_c_pct: usize,
    pub unknown_target_pct: usize,
    pub target_pct: usize,
    pub explain_pct: usize,
    pub min_rounds: usize,
    /// repeat the previous invocation unchanged this often (no-op rebuild checks)
    pub repeat_pct: usize,
    /// sources that are symbolic links to files elsewhere
    pub symlink_pct: usize,
    /// histories in which a command includes a generated file it has no ordering path to.  n2's behaviour is then
    /// deliberately loose (it may report `used generated file ... but has no dependency path`), so only the
    /// closure oracle (no step outside the requested closure runs) is evaluated for such a history.
    pub hazard_pct: usize,
    /// generate edits that add or drop a step's depfile/deps binding
    pub deps_toggle: bool,
    /// one step includes hundreds of extra headers, so that .n2_db grows past 8 KiB and its records get long
    pub big_log_pct: usize,
}

pub const EDIT_NAMES: [&str; 14] = [
    "noop", "modify-src", "touch-src", "backdate-src", "rm-unref-src", "rm-ref-src", "rm-out", "touch-out", "scribble-out", "cmd-edit", "includes", "step-remove-restore", "edge", "output-set",
];
pub const E_RESTYLE: usize = 0; // "noop" slot doubles as restyle when the tape says so

impl Default for Profile {
    fn default() -> Self {
        Profile {
            gen: GenOpts::default(),
            edits: [1, 4, 1, 1, 1, 0, 2, 1, 1, 2, 2, 1, 1, 1],
            max_edits: 2,
            fault_pct: 25,
            interrupt_pct: 3,
            kill_pct: 4,
            restat_pct: 0,
            use_c_pct: 0,
            unknown_target_pct: 0,
            target_pct: 50,
            explain_pct: 5,
            min_rounds: 1,
            repeat_pct: 15,
            symlink_pct: 10,
            hazard_pct: 0,
            deps_toggle: true,
            big_log_pct: 0,
        }
    }
}

#[derive(Debug)]
pub enum Res {
    Exit(i32),
    Error(String),
    Panic(String, String),
    Death,
}

#[derive(Default, Clone, Debug)]
pub struct Stats {
    pub invocations: u64,
    pub classes: BTreeSet<String>,
    pub nontrivial: BTreeSet<&'static str>,
    pub hazards: u64,
}

pub struct HistOut {
    /// last round: number of running commands at each completion request, and the command steps of the manifest
    pub branching: Vec<usize>,
    pub cmd_steps: Vec<usize>,
    /// per round: lengths of the log writes n2 issued
    pub write_lens: Vec<Vec<usize>>,
    /// (length of the record being written at the crash, true if a build record was torn)
    pub crashed: Option<(usize, bool)>,
    pub viols: Vec<Viol>,
    pub stats: Stats,
    pub desc: Value,
    pub fp_text: String,
}

pub struct Inv {
    pub res: Res,
    pub stdout: String,
    pub sh: Shared,
    pub proj_before: Proj,
}

thread_local! {
    static DBFAULT_STATE: RefCell<(usize, Option<(usize, usize)>, Option<(bool, bool)>)> = RefCell::new((0, None, None));
    static DB_LENS: RefCell<Vec<usize>> = RefCell::new(Vec::new());
}

/// Run one n2 invocation in the current directory with the scripted executor installed.
pub fn invoke(world: World, spec: InvSpec, tape: OwnedTape) -> Inv {
    invoke_forced(world, spec, tape, None)
}

pub fn invoke_forced(world: World, spec: InvSpec, tape: OwnedTape, forced: Option<Vec<usize>>) -> Inv {
    let proj_before = world.disk.clone();
    let mut args: Vec<String> = vec![];
    let here = std::env::current_dir().unwrap();
    if spec.use_c {
        let name = here.file_name().unwrap().to_string_lossy().to_string();
        std::env::set_current_dir(here.parent().unwrap()).unwrap();
        args.push("-C".into());
        args.push(name);
    }
    if world.disk.manifest != "build.ninja" {
        args.push("-f".into());
        // the manifest is a path given on the command line like any target: any spelling names the same node
        args.push(respell(&world.disk.manifest, spec.spell));
    }
    args.push("-j".into());
    args.push(spec.j.to_string());
    if let Some(k) = spec.k {
        args.push("-k".into());
        args.push(k.to_string());
    }
    if spec.explain {
        args.push("-d".into());
        args.push("explain".into());
    }
    if spec.restat {
        args.extend(["-d", "ninja_compat", "-t", "restat"].iter().map(|s| s.to_string()));
    }
    for (i, t) in spec.targets.iter().enumerate() {
        args.push(respell_target(t, spec.spell + i));
    }
    let fault = spec.db_fault;
    let mut shared = Shared::new(world, spec, tape);
    shared.forced = forced;
    let rc = Rc::new(RefCell::new(shared));
    n2::verif::set_exec(Some(Box::new(Ex(rc.clone()))));
    n2::verif::set_observer(Some(Box::new(Obs(rc.clone()))));
    DBFAULT_STATE.with(|s| *s.borrow_mut() = (0, fault, None));
    DB_LENS.with(|l| l.borrow_mut().clear());
    n2::verif::set_db_fault(Some(Box::new(|buf: &[u8]| {
        DBFAULT_STATE.with(|s| {
            let mut s = s.borrow_mut();
            let idx = s.0;
            s.0 += 1;
            DB_LENS.with(|l| l.borrow_mut().push(buf.len()));
            match s.1 {
                Some((at, bytes)) if at == idx => {
                    let n = bytes.min(buf.len());
                    let is_build = buf.len() >= 2 && buf[1] & 0x80 != 0 && &buf[..4.min(buf.len())] != b"n2db";
                    s.2 = Some((is_build, n == buf.len()));
                    Some(n)
                }
                _ => None,
            }
        })
    })));
    let _ = util::take_stdout();
    let _ = util::take_panic();
    let r = std::panic::catch_unwind(std::panic::AssertUnwindSafe(|| n2::verif::run_cli(args)));
    n2::verif::set_exec(None);
    n2::verif::set_observer(None);
    n2::verif::set_db_fault(None);
    let stdout = util::take_stdout();
    std::env::set_current_dir(&here).unwrap();
    let mut sh = Rc::try_unwrap(rc).ok().expect("shared state still referenced").into_inner();
    sh.db_writes = DBFAULT_STATE.with(|s| s.borrow().0);
    sh.db_lens = DB_LENS.with(|l| l.borrow().clone());
    sh.died_in_db = DBFAULT_STATE.with(|s| s.borrow().2);
    let res = match r {
        Ok(Ok(code)) => Res::Exit(code),
        Ok(Err(e)) => Res::Error(e),
        Err(payload) => {
            if payload.downcast_ref::<n2::verif::Death>().is_some() {
                Res::Death
            } else {
                let (m, f) = util::take_panic().unwrap_or(("<unknown panic>".into(), String::new()));
                Res::Panic(m, f)
            }
        }
    };
    // n2 is gone; commands it left behind finish (or not) on their own
    if !sh.running.is_empty() {
        abandon_running(&mut sh);
    }
    // bring the model's view of the log in line with what reached the file
    let mut written = std::mem::take(&mut sh.dbw);
    if let Some((is_build, complete)) = sh.died_in_db {
        // n2 notes a build record just before writing it; path records of the same step come first
        if is_build && !complete {
            written.pop();
        }
        if !(is_build && complete) {
            if let Some(i) = sh.appended.pop() {
                sh.world.log.truncate(i);
            }
        }
    }
    sh.world.dbfile.extend(written);
    Inv { res, stdout, sh, proj_before }
}

fn exists(p: &str) -> bool {
    Path::new(p).exists()
}

/// The project the next manifest edit applies to.
fn editable(world: &mut World) -> &mut Proj {
    let has_regen = world.disk.steps.iter().any(|s| s.regen) || world.next.as_ref().map(|n| n.steps.iter().any(|s| s.regen)).unwrap_or(false);
    if has_regen {
        if world.next.is_none() {
            world.next = Some(world.disk.clone());
        }
        world.next.as_mut().unwrap()
    } else {
        &mut world.disk
    }
}
fn current(world: &World) -> &Proj {
    world.next.as_ref().unwrap_or(&world.disk)
}
fn manifest_edited(world: &mut World) {
    if world.next.is_some() {
        // user statements of a project with a separately generated include live in inc.ninja
        if world.disk.has_subgen() {
            world.write_source("sub.in");
        } else {
            world.write_source("gen.in");
        }
    }
}

/// Apply one edit; returns a description (None = not applicable here).
pub fn apply_edit(world: &mut World, t: &mut Tape, prof: &Profile) -> Option<String> {
    let kind = t.weighted(&prof.edits);
    let (a, b, c) = (t.raw(), t.raw(), t.raw());
    let pickn = |x: u16, n: usize| if n == 0 { 0 } else { ((x as usize) * n) >> 16 };
    let cur = current(world).clone();
    let declared = |w: &World, f: &str| -> bool {
        let mut projs = vec![&w.disk];
        if let Some(n) = &w.next {
            projs.push(n);
        }
        projs.iter().any(|p| p.steps.iter().any(|s| s.ins.iter().chain(&s.imp).chain(&s.oo).any(|x| x == f))) || w.stash.iter().any(|s| s.ins.iter().chain(&s.imp).chain(&s.oo).any(|x| x == f))
    };
    let plain_sources: Vec<String> = cur.sources.iter().filter(|s| *s != "gen.in" && *s != "sub.in").cloned().collect();
    match kind {
        0 if c >= 1 << 15 && prof.gen.pools => {
            // pools: change a declared depth, or move a command step into / out of a pool (never affects what is up to date)
            let p = editable(world);
            let d = if !p.pools.is_empty() && b >= 1 << 15 {
                let i = pickn(a, p.pools.len());
                let nd = pickn(b.wrapping_mul(7), 4);
                if p.pools[i].1 == nd {
                    return None;
                }
                p.pools[i].1 = nd;
                format!("pool {} depth := {}", p.pools[i].0, nd)
            } else {
                let cmds: Vec<usize> = p.steps.iter().enumerate().filter(|(_, s)| !s.phony && !s.regen).map(|(i, _)| i).collect();
                let i = *cmds.get(pickn(a, cmds.len()))?;
                let mut choices: Vec<Option<String>> = vec![None, Some("console".to_string())];
                choices.extend(p.pools.iter().map(|x| Some(x.0.clone())));
                let np = choices[pickn(b.wrapping_mul(13), choices.len())].clone();
                if p.steps[i].pool == np {
                    return None;
                }
                p.steps[i].pool = np.clone();
                format!("pool of step {} := {:?}", p.steps[i].uid, np)
            };
            manifest_edited(world);
            Some(d)
        }
        0 => {
            if a >= 1 << 15 && !cur.has_subgen() {
                let st = 1 + pickn(b, 40) as u32;
                let p = editable(world);
                if p.style == st {
                    return None;
                }
                p.style = st;
                manifest_edited(world);
                Some(format!("restyle manifest (style {})", st))
            } else {
                Some("no edit".into())
            }
        }
        1 => {
            let s = plain_sources.get(pickn(a, plain_sources.len()))?.clone();
            world.write_source(&s);
            Some(format!("modify {}", s))
        }
        2 => {
            let ex: Vec<&String> = plain_sources.iter().filter(|s| exists(s)).collect();
            let s = (*ex.get(pickn(a, ex.len()))?).clone();
            world.clock.touch(&s);
            Some(format!("touch {}", s))
        }
        3 => {
            let ex: Vec<&String> = plain_sources.iter().filter(|s| exists(s)).collect();
            let s = (*ex.get(pickn(a, ex.len()))?).clone();
            let v = world.src_ver.entry(s.clone()).or_default();
            *v += 1;
            let content = format!("{}@{}", s, v);
            world.clock.write_backdated(&s, content.as_bytes());
            Some(format!("new content with older mtime: {}", s))
        }
        4 => {
            // delete a source nobody declares and nobody truly includes (it may still be in recorded lists)
            let cands: Vec<String> = plain_sources.iter().filter(|s| exists(s) && !declared(world, s) && !world.includes.values().any(|v| v.contains(s))).cloned().collect();
            let s = cands.get(pickn(a, cands.len()))?.clone();
            let is_link = std::fs::symlink_metadata(&s).map(|m| m.file_type().is_symlink()).unwrap_or(false);
            if is_link && b >= 1 << 15 {
                // the link stays, what it points to goes away: for n2 the file is simply missing
                let target = std::fs::read_link(&s).ok()?;
                std::fs::remove_file(&target).ok()?;
                return Some(format!("delete the target of symlinked unreferenced source {}", s));
            }
            std::fs::remove_file(&s).ok()?;
            Some(format!("delete unreferenced source {}", s))
        }
        5 => {
            let cands: Vec<String> = plain_sources.iter().filter(|s| exists(s) && !world.includes.values().any(|v| v.contains(s))).cloned().collect();
            let s = cands.get(pickn(a, cands.len()))?.clone();
            std::fs::remove_file(&s).ok()?;
            Some(format!("delete source {}", s))
        }
        6 | 7 | 8 => {
            let outs: Vec<String> = world.disk.steps.iter().filter(|s| !s.phony && !s.regen).flat_map(|s| s.outs.clone()).filter(|o| exists(o)).collect();
            let o = outs.get(pickn(a, outs.len()))?.clone();
            match kind {
                6 => {
                    std::fs::remove_file(&o).ok()?;
                    Some(format!("delete output {}", o))
                }
                7 => {
                    world.clock.touch(&o);
                    Some(format!("touch output {}", o))
                }
                _ => {
                    world.clock.write(&o, format!("scribble {}", b).as_bytes());
                    Some(format!("overwrite output {}", o))
                }
            }
        }
        9 => {
            // (with a separately generated include file the generator statements live in the main file, which
            // only the main generator rewrites: they are left alone)
            let cmds: Vec<usize> = cur.steps.iter().filter(|s| !s.phony && !(cur.has_subgen() && s.regen)).map(|s| s.uid).collect();
            let uid = *cmds.get(pickn(a, cmds.len()))?;
            // (a step that really includes headers cannot stop reporting them without becoming wrong)
            let has_includes = world.includes.get(&uid).map(|v| !v.is_empty()).unwrap_or(false);
            let p = editable(world);
            let s = p.step_mut(uid)?;
            let what = if c >= 3 << 14 && prof.gen.deps && prof.deps_toggle && !s.regen && !(s.deps != 0 && has_includes) {
                // how dependencies are reported is not part of what makes a step up to date: adding or dropping the
                // depfile / deps binding must not re-run it, and the next real run reports accordingly
                s.deps = match s.deps {
                    0 => 1 + (b % 3) as u8,
                    _ => 0,
                };
                "dependency reporting (depfile/deps binding)"
            } else if s.rsp.is_some() && b >= 1 << 15 {
                s.rsp = Some(s.rsp.unwrap() + 1);
                "rspfile content"
            } else {
                s.ver += 1;
                "command text"
            };
            manifest_edited(world);
            Some(format!("edit {} of step {}", what, uid))
        }
        10 => {
            // change what a command includes; only possible together with a change of something it already reads
            // (a step whose pending manifest text no longer has the depfile/deps binding cannot start to include
            // headers: n2 would have no way to learn about them)
            let cands: Vec<&Step> = world.disk.steps.iter().filter(|s| s.deps != 0 && world.next.as_ref().map(|n| n.step(s.uid).map(|ns| ns.deps != 0).unwrap_or(false)).unwrap_or(true)).collect();
            let s = (*cands.get(pickn(a, cands.len()))?).clone();
            let trig: Vec<String> = s.ins.iter().chain(&s.imp).chain(&world.true_includes(s.uid)).filter(|f| world.disk.producer(f).is_none() && exists(f) && *f != "gen.in").cloned().collect();
            let tr = trig.get(pickn(b, trig.len()))?.clone();
            world.write_source(&tr);
            let mut pool: Vec<String> = plain_sources.iter().filter(|f| exists(f) && !s.ins.contains(f) && !s.imp.contains(f)).cloned().collect();
            // generated headers must be reachable through ordering edges in the manifest on disk and in a pending one
            let pending_ok: Option<Vec<String>> = world.next.as_ref().and_then(|n| n.step(s.uid).map(|ns| World::reachable_generated(n, ns)));
            pool.extend(World::reachable_generated(&world.disk, &s).into_iter().filter(|f| exists(f) && !s.ins.contains(f) && !s.imp.contains(f) && pending_ok.as_ref().map(|p| p.contains(f)).unwrap_or(true)));
            let mut inc = vec![];
            let mut bits = c as usize;
            for f in pool {
                if bits & 1 == 1 {
                    inc.push(f);
                }
                bits >>= 1;
            }
            let d = format!("includes of step {} := {:?} (with a change of {})", s.uid, inc, tr);
            world.includes.insert(s.uid, inc);
            Some(d)
        }
        11 => {
            if !world.stash.is_empty() && a >= 1 << 15 {
                let st = world.stash.pop().unwrap();
                let p = editable(world);
                if p.steps.iter().any(|s| s.uid == st.uid || s.outs.iter().any(|o| st.outs.contains(o))) {
                    return None;
                }
                let d = format!("restore step {}", st.uid);
                p.steps.push(st);
                let n = p.steps.len();
                p.order.push(n - 1);
                manifest_edited(world);
                Some(d)
            } else {
                let p = editable(world);
                let leafs: Vec<usize> = p.steps.iter().enumerate().filter(|(_, s)| !s.regen && !p.steps.iter().any(|x| x.ins.iter().chain(&x.imp).chain(&x.oo).chain(&x.val).any(|f| s.outs.contains(f))) && !s.outs.iter().any(|o| p.defaults.contains(o))).map(|(i, _)| i).collect();
                if p.steps.iter().filter(|s| !s.regen).count() <= 1 {
                    return None;
                }
                let i = *leafs.get(pickn(b, leafs.len()))?;
                let st = p.steps.remove(i);
                p.order.retain(|&x| x != i);
                for x in p.order.iter_mut() {
                    if *x > i {
                        *x -= 1;
                    }
                }
                let d = format!("remove step {} ({:?})", st.uid, st.outs);
                world.stash.push(st);
                manifest_edited(world);
                Some(d)
            }
        }
        12 => {
            let phony_dirtying = prof.gen.phony_dirtying;
            let p = editable(world);
            let idx = pickn(a, p.steps.len());
            let uid = p.steps.get(idx)?.uid;
            if p.steps[idx].regen {
                return None;
            }
            let role = pickn(c, 4);
            if b >= 1 << 15 {
                // add an edge to an existing source or to an output of an earlier step
                let mut cands: Vec<String> = p.sources.iter().filter(|f| exists(f) && *f != "gen.in" && *f != "sub.in").cloned().collect();
                let phony_outs: BTreeSet<String> = p.steps.iter().filter(|s| s.phony).flat_map(|s| s.outs.clone()).collect();
                for s in &p.steps {
                    if s.uid < uid && !s.regen {
                        cands.extend(s.outs.iter().cloned());
                    }
                }
                let st = &p.steps[idx];
                cands.retain(|f| !st.ins.contains(f) && !st.imp.contains(f) && !st.oo.contains(f) && !st.val.contains(f) && !st.outs.contains(f));
                if role < 2 && !st.phony && !phony_dirtying {
                    cands.retain(|f| !phony_outs.contains(f));
                }
                let f = cands.get(pickn(b.wrapping_mul(31), cands.len()))?.clone();
                let st = &mut p.steps[idx];
                let rn = ["explicit", "implicit", "order-only", "validation"][role];
                match role {
                    0 => st.ins.push(f.clone()),
                    1 => st.imp.push(f.clone()),
                    2 => st.oo.push(f.clone()),
                    _ => st.val.push(f.clone()),
                }
                manifest_edited(world);
                Some(format!("add {} input {} to step {}", rn, f, uid))
            } else {
                let srcs: BTreeSet<String> = p.sources.iter().cloned().collect();
                let st = &mut p.steps[idx];
                let list = match role {
                    0 => &mut st.ins,
                    1 => &mut st.imp,
                    2 => &mut st.oo,
                    _ => &mut st.val,
                };
                let pos = list.iter().position(|f| role == 3 || srcs.contains(f))?;
                let f = list.remove(pos);
                manifest_edited(world);
                Some(format!("remove input {} from step {}", f, uid))
            }
        }
        13 => {
            // change output sets: move an unconsumed implicit output to another command step, add a fresh one, or drop one
            let included: BTreeSet<String> = world.includes.values().flatten().cloned().collect();
            // a statement taken out for a while still consumes what it names when it comes back
            let stashed: BTreeSet<String> = world.stash.iter().flat_map(|x| x.ins.iter().chain(&x.imp).chain(&x.oo).chain(&x.val).cloned()).collect();
            let p = editable(world);
            let consumed = |p: &Proj, o: &str| p.steps.iter().any(|x| x.ins.iter().chain(&x.imp).chain(&x.oo).chain(&x.val).any(|f| f == o)) || p.defaults.iter().any(|d| d == o) || stashed.contains(o);
            let cmds: Vec<usize> = p.steps.iter().enumerate().filter(|(_, s)| !s.phony && !s.regen).map(|(i, _)| i).collect();
            let ai = *cmds.get(pickn(a, cmds.len()))?;
            match pickn(c, 3) {
                0 => {
                    let bi = *cmds.get(pickn(b, cmds.len()))?;
                    if ai == bi || p.steps[ai].outs.len() <= p.steps[ai].nexp {
                        return None;
                    }
                    let o = p.steps[ai].outs.last().unwrap().clone();
                    if consumed(p, &o) || included.contains(&o) {
                        return None;
                    }
                    p.steps[ai].outs.pop();
                    p.steps[bi].outs.push(o.clone());
                    let d = format!("move output {} from step {} to step {}", o, p.steps[ai].uid, p.steps[bi].uid);
                    manifest_edited(world);
                    Some(d)
                }
                1 => {
                    let o = format!("x{}_{}", p.steps[ai].uid, p.steps[ai].outs.len());
                    if p.producer(&o).is_some() || p.steps[ai].outs.len() >= 4 {
                        return None;
                    }
                    p.steps[ai].outs.push(o.clone());
                    let d = format!("add implicit output {} to step {}", o, p.steps[ai].uid);
                    manifest_edited(world);
                    Some(d)
                }
                _ => {
                    if p.steps[ai].outs.len() <= p.steps[ai].nexp {
                        return None;
                    }
                    let o = p.steps[ai].outs.last().unwrap().clone();
                    if consumed(p, &o) || included.contains(&o) {
                        return None;
                    }
                    p.steps[ai].outs.pop();
                    let d = format!("drop implicit output {} from step {}", o, p.steps[ai].uid);
                    manifest_edited(world);
                    Some(d)
                }
            }
        }
        _ => None,
    }
}

pub fn gen_spec(t: &mut Tape, world: &World, prof: &Profile) -> InvSpec {
    let proj = &world.disk;
    let j = [1, 2, 3, 4, 16][t.weighted(&[3, 4, 3, 2, 2])];
    // `-k 0`: as in Ninja, no limit; only termination and the absence of internal errors are judged for it
    let k = [None, Some(1), Some(2), Some(3), Some(9), Some(0)][t.weighted(&[6, 4, 4, 2, 4, 1])];
    let mut targets = vec![];
    if t.chance(prof.target_pct) {
        // names the (possibly regenerated) manifest will contain; names that survive only in the log
        // are a listed finding (F10) and are excluded by construction
        let cands: Vec<String> = current(world).all_outs();
        let nt = 1 + t.below(2);
        for _ in 0..nt {
            if t.chance(prof.unknown_target_pct) {
                targets.push(["nowhere", "o/none", "s0x"][t.below(3)].to_string());
            } else if t.chance(10) && !proj.sources.is_empty() {
                // (a source that the manifest no longer mentions may survive in the log: listed finding F10, not generated)
                let s = proj.sources[t.below(proj.sources.len())].clone();
                if current(world).mentioned().contains(&s) {
                    targets.push(s);
                }
            } else if !cands.is_empty() {
                targets.push(cands[t.below(cands.len())].clone());
            }
        }
    }
    let spell = t.below(6);
    let mut faults = BTreeMap::new();
    if t.chance(prof.fault_pct) {
        let all: Vec<usize> = current(world).steps.iter().chain(&proj.steps).filter(|s| !s.phony).map(|s| s.uid).collect();
        for uid in all {
            if t.chance(35) {
                faults.insert(uid, if t.chance(40) { Fault::FailScribble } else { Fault::Fail });
            }
        }
    }
    if t.chance(prof.interrupt_pct) {
        let all: Vec<usize> = proj.steps.iter().filter(|s| !s.phony).map(|s| s.uid).collect();
        if !all.is_empty() {
            faults.insert(all[t.below(all.len())], Fault::Interrupt);
        }
    }
    let kill_at = if t.chance(prof.kill_pct) { Some(t.below(5)) } else { None };
    let restat = faults.is_empty() && kill_at.is_none() && t.chance(prof.restat_pct);
    let explain = t.chance(prof.explain_pct);
    let use_c = t.chance(prof.use_c_pct);
    InvSpec { j, k, targets, spell, restat, explain, faults, kill_at, db_fault: None, use_c, abs_reports: false }
}

fn plural(n: usize) -> &'static str {
    if n == 1 {
        ""
    } else {
        "s"
    }
}

/// Oracles evaluated after an invocation.  `prev_clean`: wanted set of the immediately preceding
/// successful invocation when nothing was edited since.
pub fn judge(inv: &mut Inv, prev_clean: Option<&BTreeSet<usize>>, prev_failed: &BTreeSet<usize>, stats: &mut Stats) -> Vec<Viol> {
    let mut v: Vec<Viol> = std::mem::take(&mut inv.sh.viols);
    let sh = &inv.sh;
    let world = &sh.world;
    let proj = &sh.loaded; // the manifest n2 had loaded at the end of the invocation
    if sh.regen_since_load && !matches!(inv.res, Res::Death | Res::Panic(..)) && !sh.finishes.iter().any(|f| f.outcome != Outcome::Success) {
        v.push(Viol::new("C17", "regenerated-without-reload", "the manifest was regenerated but n2 finished without reloading it"));
        if matches!(inv.res, Res::Exit(0)) {
            // C02 speaks of the current manifest: what was built follows a text that is no longer on disk
            v.push(Viol::new("C02", "built-from-superseded-manifest", "n2 exited 0 having built from the manifest text it loaded before that text was regenerated in this invocation"));
        }
    }
    let in_log: BTreeSet<&String> = world.dbfile.iter().flat_map(|r| r.outs.iter().chain(&r.deps)).collect();
    let spec = &sh.spec;
    let last_epoch = sh.loads;
    let started_last: BTreeSet<usize> = sh.starts.iter().filter(|s| s.epoch == last_epoch).map(|s| s.uid).collect();
    let ok_count = sh.finishes.iter().filter(|f| f.outcome == Outcome::Success).count();
    let failures: Vec<&FinishEv> = sh.finishes.iter().filter(|f| f.outcome == Outcome::Failure).collect();
    let interrupted = sh.finishes.iter().any(|f| f.outcome == Outcome::Interrupted);
    let push = |v: &mut Vec<Viol>, p: &str, k: &str, m: String| {
        if v.len() < 60 {
            v.push(Viol::new(p, k, m));
        }
    };

    // ---- classification for evidence
    if sh.max_running >= 2 {
        stats.classes.insert("concurrent".into());
    }
    if !failures.is_empty() {
        stats.classes.insert("failure".into());
    }
    if sh.reloaded {
        stats.classes.insert("reload".into());
        let manifest_step_ran = sh.finishes.iter().any(|f| f.outcome == Outcome::Success && inv.proj_before.step(f.uid).map(|s| s.regen && !s.subgen).unwrap_or(false));
        if !manifest_step_ran {
            stats.classes.insert("reload-caused-by-included-file-generator-only".into());
        }
    }
    if sh.pool_full_while_other_ran {
        stats.classes.insert("pool-at-depth".into());
    }
    if sh.j_full {
        stats.classes.insert("j-at-limit".into());
    }
    if spec.restat {
        stats.classes.insert("restat".into());
    }
    if sh.starts.is_empty() {
        stats.classes.insert("nothing-ran".into());
    }

    // ---- work conservation (C06; also guards C04 against satisfying limits by idling)
    for w in &sh.waits {
        for s in sh.starts.iter().filter(|s| s.time > w.time && s.phase == w.phase) {
            let pj = if s.epoch >= 2 || !sh.reloaded { proj } else { &inv.proj_before };
            let Some(step) = pj.step(s.uid) else { continue };
            let anc = pj.ancestors(s.uid);
            let blocked = anc.iter().any(|a| {
                let started = sh.starts.iter().any(|x| x.uid == *a && x.epoch == s.epoch);
                started && !sh.finishes.iter().any(|f| f.uid == *a && f.time < w.time && f.outcome == Outcome::Success && f.epoch == s.epoch)
            });
            if blocked || w.running.len() >= spec.j {
                continue;
            }
            if let Some(pl) = &step.pool {
                let depth = pj.pool_depth(pl).unwrap_or(0);
                let used = w.running.iter().filter(|r| pj.step(**r).and_then(|x| x.pool.as_ref()) == Some(pl)).count();
                if depth > 0 && used >= depth {
                    continue;
                }
            }
            let msg = format!("n2 blocked at t={} with {} of {} slots busy although step {} (started at t={}) was already startable", w.time, w.running.len(), spec.j, s.uid, s.time);
            push(&mut v, "C06", "idle-while-startable", msg.clone());
            push(&mut v, "C04", "idle-while-startable", msg);
            break;
        }
    }
    // a blocking wait at which a step became ready because its last producer finished while a sibling still ran
    if sh.waits.iter().any(|w| w.running.len() >= 2) && sh.starts.iter().any(|s| proj.ancestors(s.uid).iter().any(|a| sh.finished_ok(*a))) {
        stats.nontrivial.insert("C01");
        stats.nontrivial.insert("C06");
    }

    // ---- no record for a failed or interrupted command (C05)
    for f in sh.finishes.iter().filter(|f| f.outcome != Outcome::Success) {
        let pj = if f.epoch >= 2 || !sh.reloaded { proj } else { &inv.proj_before };
        if let Some(st) = pj.step(f.uid) {
            // records of this invocation are the tail of world.dbfile; identify by outs and position via dbw count is not kept,
            // so compare against the model log: a failed step must not have gained a record in this invocation
            let gained = sh.appended.iter().any(|&i| world.log.get(i).map(|r| r.outs == st.outs).unwrap_or(false));
            let _ = gained;
        }
    }

    // ---- C18: the log lives at <builddir>/.n2_db (relative to the -C directory) and nowhere else
    if sh.loads > 0 && !matches!(inv.res, Res::Panic(..)) {
        let expect = match &proj.builddir {
            Some(b) => format!("{}/.n2_db", b),
            None => ".n2_db".to_string(),
        };
        if !Path::new(&expect).is_file() {
            push(&mut v, "C18", "log-location", format!("the manifest was loaded but there is no log at {}", expect));
        }
        for stray in [".n2_db", "bd/.n2_db", "out/bd/.n2_db", "../.n2_db"] {
            if stray != expect && Path::new(stray).exists() {
                push(&mut v, "C18", "log-location", format!("a log appeared at {} (expected only {})", stray, expect));
            }
        }
    }
    let wanted_final: BTreeSet<usize> = sh.wanted.clone();
    let unknown_targets: Vec<&String> = spec.targets.iter().filter(|t| !proj.mentioned().contains(*t)).collect();

    match &inv.res {
        Res::Panic(m, f) => {
            let key = if m.starts_with("DEADLOCK") {
                "deadlock".to_string()
            } else if m.starts_with("LIVELOCK") {
                "livelock".to_string()
            } else {
                util::panic_key(m, f)
            };
            push(&mut v, "C06", &key, format!("n2 aborted with an internal error: {} ({})", m, f));
        }
        Res::Death => {}
        Res::Exit(0) => {
            if spec.restat {
                if !sh.starts.is_empty() {
                    push(&mut v, "C03", "restat-ran", format!("-t restat started commands: {:?}", sh.starts.iter().map(|s| s.uid).collect::<Vec<_>>()));
                } else {
                    // no command completed: the summary says so
                    let last = inv.stdout.lines().last().unwrap_or("").to_string();
                    if last != "n2: no work to do" {
                        push(&mut v, "C19", "summary", format!("-t restat ran no command, yet the summary line is {:?}", last));
                    }
                }
                return v;
            }
            if !failures.is_empty() || interrupted {
                push(&mut v, "C05", "exit0-with-failure", format!("exit status 0 although {} command(s) failed or were interrupted", failures.len() + interrupted as usize));
            }
            if !unknown_targets.is_empty() {
                if unknown_targets.iter().all(|t| in_log.contains(t)) {
                    push(&mut v, "C18", "unknown-target-known-from-log", format!("target {:?} occurs only in .n2_db, not in the manifest, but n2 exited 0", unknown_targets));
                } else {
                    push(&mut v, "C18", "unknown-target-accepted", format!("target {:?} occurs nowhere in the manifest but n2 exited 0", unknown_targets));
                }
            }
            if world.next.is_some() {
                let regen_dirty = proj.steps.iter().any(|s| s.regen);
                if regen_dirty {
                    push(&mut v, "C17", "stale-manifest-success", "n2 exited 0 although the manifest's generator inputs changed and it was not regenerated".into());
                    if proj.manifest != "build.ninja" && spec.spell % 4 != 0 {
                        push(&mut v, "C13", "manifest-flag-spelling", format!("-f {} : the manifest's own build statement was not brought up to date (n2 exited 0 with stale generator inputs)", respell(&proj.manifest, spec.spell)));
                    }
                }
            }
            // C02: every wanted command step is up to date and holds what a clean build would produce
            let mut memo = HashMap::new();
            for &u in &wanted_final {
                let Some(s) = proj.step(u) else { continue };
                if s.phony {
                    continue;
                }
                if let Some(pl) = &s.pool {
                    if proj.pool_depth(pl).is_none() && world.dirty(proj, s, &sh.attr) {
                        push(&mut v, "C04", "unknown-pool-not-reported", format!("step {} names undeclared pool {:?} and needs to run, but n2 exited 0", u, pl));
                        continue;
                    }
                }
                if !started_last.contains(&u) && world.dirty(proj, s, &sh.attr) {
                    let why = world.why_dirty(proj, s, &sh.attr);
                    let msg = format!("step {} ({:?}) was not run although it is out of date ({})", u, s.outs, why);
                    push(&mut v, "C02", "skipped-dirty-step", msg.clone());
                    if prev_failed.contains(&u) {
                        push(&mut v, "C05", "failed-step-not-rerun", msg.clone());
                    }
                    if why.contains("discovered") || why.contains("missing") {
                        push(&mut v, "C09", "skipped-dirty-step", msg.clone());
                    }
                    if why.contains("outputs differ") || why.contains("no applicable record") {
                        // a record was used although it does not describe the step's present output set
                        push(&mut v, "C08", "skipped-dirty-step", msg.clone());
                    }
                    if sh.reloaded {
                        push(&mut v, "C17", "skipped-dirty-step", msg.clone());
                    }
                    push(&mut v, "C18", "skipped-dirty-step", msg.clone());
                    if failures.is_empty() {
                        push(&mut v, "C06", "wanted-step-undecided", msg);
                    }
                }
                if !s.regen && !world.adopted {
                    for o in &s.outs {
                        let e = world.expected_content(proj, o, &mut memo, 0);
                        let got = util::read_file(o).unwrap_or_else(|| b"<missing>".to_vec());
                        if got != e {
                            let msg = format!("after a successful build {} differs from what a clean build produces (step {})", o, u);
                            push(&mut v, "C02", "stale-output", msg.clone());
                            if sh.reloaded {
                                push(&mut v, "C17", "stale-output", msg);
                            }
                            break;
                        }
                    }
                }
            }
            // C03: a build right after a successful one does nothing
            if let Some(prev) = prev_clean {
                if wanted_final.is_subset(prev) && !sh.starts.is_empty() {
                    push(&mut v, "C03", "repeat-build-ran", format!("nothing changed since the last successful build, yet steps {:?} ran", sh.starts.iter().map(|s| s.uid).collect::<Vec<_>>()));
                }
            }
            // C19 / C03: summary line
            let last = inv.stdout.lines().last().unwrap_or("").to_string();
            let expect = if ok_count == 0 { "n2: no work to do".to_string() } else { format!("n2: ran {} task{}, now up to date", ok_count, plural(ok_count)) };
            if last != expect {
                let msg = format!("summary line {:?}, expected {:?} ({} commands completed)", last, expect, ok_count);
                push(&mut v, "C19", "summary", msg.clone());
                if ok_count == 0 {
                    push(&mut v, "C03", "summary", msg);
                }
            }
            if !sh.starts.is_empty() && started_last.len() < wanted_final.iter().filter(|u| proj.step(**u).map(|s| !s.phony).unwrap_or(false)).count() {
                stats.nontrivial.insert("C02");
                stats.nontrivial.insert("C03");
            }
        }
        Res::Exit(code) => {
            if *code != 1 {
                push(&mut v, "C05", "odd-exit-code", format!("exit status {}", code));
            }
            if failures.is_empty() && !interrupted {
                push(&mut v, "C05", "failure-without-cause", format!("exit status {} although no command failed or was interrupted", code));
            }
            // failures in the regeneration phase end the invocation
            let fail_phase = sh.finishes.iter().filter(|f| f.outcome != Outcome::Success).map(|f| f.phase).min().unwrap_or(sh.phase);
            let in_regen = !sh.phase2_seen;
            if in_regen && sh.starts.iter().any(|s| !sh.wanted1.contains(&s.uid)) {
                push(&mut v, "C17", "ran-after-regen-failure", "a step outside the manifest's closure ran although regeneration failed".into());
            }
            let _ = fail_phase;
            if !interrupted {
                let nfail = failures.len();
                let budget = spec.k;
                match budget {
                    Some(0) => {}
                    Some(k) if nfail >= k => {
                        if nfail > k {
                            push(&mut v, "C05", "over-budget", format!("{} commands failed with -k {}", nfail, k));
                        }
                        let tk = failures[k - 1].time;
                        if let Some(s) = sh.starts.iter().find(|s| s.time > tk) {
                            push(&mut v, "C05", "start-after-budget", format!("step {} started after the {}th failure with -k {}", s.uid, k, k));
                        }
                    }
                    _ => {
                        // keep going: everything wanted in this phase and not downstream of a failure is up to date
                        let pj = proj;
                        let failed: BTreeSet<usize> = failures.iter().map(|f| f.uid).collect();
                        for &u in &wanted_final {
                            let Some(s) = pj.step(u) else { continue };
                            if s.phony || failed.contains(&u) || pj.ancestors(u).iter().any(|a| failed.contains(a)) {
                                continue;
                            }
                            if let Some(pl) = &s.pool {
                                if pj.pool_depth(pl).is_none() {
                                    continue;
                                }
                            }
                            let ran_ok = sh.finishes.iter().any(|f| f.uid == u && f.outcome == Outcome::Success && f.epoch == last_epoch);
                            if !ran_ok && !started_last.contains(&u) && world.dirty(pj, s, &sh.attr) && world.missing_sources(pj, s).is_empty() {
                                let shown = budget.map(|k| k.to_string()).unwrap_or("unlimited".into());
                                let msg = format!("{} failure(s) with budget {}: step {} does not depend on a failed step but was left out of date", nfail, shown, u);
                                push(&mut v, "C05", "independent-step-left-dirty", msg.clone());
                                // C06: with failures n2 must stop only when nothing further can run
                                push(&mut v, "C06", "stopped-while-runnable", msg);
                            }
                        }
                        if failures.iter().any(|f| sh.waits.iter().any(|w| w.time > f.time)) || wanted_final.len() > failed.len() {
                            stats.nontrivial.insert("C05");
                        }
                    }
                }
            } else if let Some(ti) = sh.finishes.iter().find(|f| f.outcome == Outcome::Interrupted).map(|f| f.time) {
                if let Some(s) = sh.starts.iter().find(|s| s.time > ti) {
                    push(&mut v, "C05", "start-after-interrupt", format!("step {} started after a command was interrupted", s.uid));
                }
            }
        }
        Res::Error(e) => {
            if e.contains("unknown path requested") {
                if let Some(next) = &world.next {
                    // the manifest is out of date and was not regenerated: names are to be resolved against the new text only
                    if !unknown_targets.is_empty() && next.steps.iter().any(|s| s.regen && !s.subgen) && spec.targets.iter().all(|t| next.mentioned().contains(t)) && sh.finishes.is_empty() {
                        let msg = format!("{} — but the manifest is out of date, and regenerated it names every requested target; nothing was regenerated", e);
                        push(&mut v, "C18", "target-of-regenerated-manifest-rejected", msg.clone());
                        push(&mut v, "C17", "target-of-regenerated-manifest-rejected", msg);
                    }
                }
                if unknown_targets.is_empty() {
                    push(&mut v, "C18", "known-target-rejected", format!("{} — but every requested target occurs in the manifest", e));
                }
                if sh.starts.iter().any(|s| s.phase == sh.phase && sh.phase2_seen) {
                    push(&mut v, "C18", "built-despite-unknown-target", "a target was built although another requested name is unknown".into());
                }
            } else if e.contains("input") && e.contains("missing") {
                let ok = wanted_final.iter().chain(sh.wanted1.iter()).any(|u| proj.step(*u).map(|s| !s.phony && world.missing_sources(proj, s).iter().any(|f| e.contains(f.as_str()))).unwrap_or(false))
                    || inv.proj_before.steps.iter().any(|s| !s.phony && world.missing_sources(&inv.proj_before, s).iter().any(|f| e.contains(f.as_str())));
                if !ok {
                    push(&mut v, "C06", "spurious-input-missing", format!("error {:?} but no wanted step has a missing source input", e));
                    push(&mut v, "C09", "spurious-input-missing", format!("error {:?} but no wanted step has a missing declared source input (a vanished discovered dependency must not fail the build)", e));
                }
            } else if e.contains("unknown pool") {
                let ok = wanted_final.iter().any(|u| proj.step(*u).map(|s| s.pool.as_ref().map(|p| proj.pool_depth(p).is_none()).unwrap_or(false) && !sh.started_in_epoch(*u)).unwrap_or(false));
                if !ok {
                    push(&mut v, "C04", "spurious-unknown-pool", format!("error {:?} but no wanted step names an undeclared pool", e));
                }
                stats.nontrivial.insert("C04");
            } else if e.contains("used generated file") {
                // legitimate only if some step really has a recorded or reported dependency on an output of a step
                // that is not among its ordering ancestors (a project with a missing edge: not judged)
                let x = e.split("used generated file ").nth(1).and_then(|r| r.split(", but has no").next()).unwrap_or("").to_string();
                let producer = proj.steps.iter().find(|p| p.outs.iter().any(|o| refcanon(o) == x)).map(|p| p.uid);
                let justified = match producer {
                    None => false,
                    Some(pu) => proj.steps.iter().any(|st| {
                        let recorded = sh.attr.get(&st.uid).map(|r| r.deps.clone()).unwrap_or_default();
                        let now = world.attributed(proj).get(&st.uid).map(|r| r.deps.clone()).unwrap_or_default();
                        let inc = world.true_includes(st.uid);
                        // (also a step whose record names a file that an edit has since made its own output)
                        recorded.iter().chain(now.iter()).chain(inc.iter()).any(|d| refcanon(d) == x) && !proj.ancestors(st.uid).contains(&pu)
                    }),
                };
                if justified || sh.regen_since_load || world.next.is_some() {
                    stats.hazards += 1;
                } else {
                    push(&mut v, "C09", "spurious-generated-file-error", format!("error {:?}, but every step that depends on {:?} has a dependency path to its producer (a discovered dependency must never fail the build)", e, x));
                    push(&mut v, "C06", "spurious-generated-file-error", format!("unexpected error: {}", e));
                }
            } else {
                push(&mut v, "C06", "unexpected-error", format!("unexpected error: {}", e));
                // no edit of a history is allowed to make n2 give up: e.g. a vanished header must only make a step dirty
                push(&mut v, "C09", "unexpected-error", format!("unexpected error: {}", e));
                push(&mut v, "C02", "unexpected-error", format!("unexpected error: {}", e));
            }
        }
    }
    v
}

/// Decode and run a whole history.  The current directory is reset to a fresh scratch directory.
pub struct HistOpts<'a> {
    pub focus: &'a str,
    pub known: &'a [crate::engine::Finding],
    /// (round, index of the log write, bytes persisted): die inside that write
    pub fault: Option<(usize, usize, usize)>,
    /// plain full builds appended after the case's own rounds: build, repeat, small edit + build
    pub extra_rounds: usize,
    /// exhaustive schedule exploration: completion choices and failing set forced on the last round
    pub forced: Option<(Vec<usize>, Vec<usize>)>,
}

pub fn run_history(case: &Case, prof: &Profile, dir: &Path, focus: &str, known: &[crate::engine::Finding]) -> HistOut {
    run_history_x(case, prof, dir, &HistOpts { focus, known, fault: None, extra_rounds: 0, forced: None })
}

pub fn run_history_x(case: &Case, prof: &Profile, dir: &Path, opts: &HistOpts) -> HistOut {
    let (focus, known) = (opts.focus, opts.known);
    let mut write_lens: Vec<Vec<usize>> = vec![];
    let mut crashed: Option<(usize, bool)> = None;
    let mut last_branching: Vec<usize> = vec![];
    let mut last_cmd_steps: Vec<usize> = vec![];
    let proj_dir = dir.join("p");
    util::fresh_cwd(&proj_dir);
    let mut mt = Tape::new(&case.main);
    let proj = Proj::gen(&mut mt, &prof.gen);
    let mut world = World::new(proj);
    let mut stats = Stats::default();
    // true include sets and initial sources
    for s in world.disk.sources.clone() {
        if prof.symlink_pct > 0 && mt.chance(prof.symlink_pct) && s != "gen.in" && s != "sub.in" {
            // the source is a symbolic link to a file elsewhere: n2 must see the target's timestamp
            let target = format!(".targets/{}", s.replace('/', "_"));
            std::fs::create_dir_all(".targets").unwrap();
            std::fs::write(&target, "").unwrap();
            if let Some(p) = Path::new(&s).parent() {
                if !p.as_os_str().is_empty() {
                    std::fs::create_dir_all(p).unwrap();
                }
            }
            let abs = std::env::current_dir().unwrap().join(&target);
            let _ = std::os::unix::fs::symlink(&abs, &s);
            stats.classes.insert("symlinked-source".into());
        }
        world.write_source(&s);
    }
    for s in world.disk.steps.clone() {
        if s.deps != 0 {
            let mut inc = vec![];
            for f in world.disk.sources.iter().filter(|f| *f != "gen.in" && *f != "sub.in") {
                if !s.ins.contains(f) && !s.imp.contains(f) && mt.chance(35) {
                    inc.push(f.clone());
                }
            }
            for f in World::reachable_generated(&world.disk, &s) {
                if !s.ins.contains(&f) && !s.imp.contains(&f) && mt.chance(25) {
                    inc.push(f);
                }
            }
            world.includes.insert(s.uid, inc);
        }
    }
    if prof.big_log_pct > 0 && mt.chance(prof.big_log_pct) {
        if let Some(uid) = world.disk.steps.iter().find(|s| s.deps != 0 && !s.regen).map(|s| s.uid) {
            // many short names, or fewer long ones: either way the log passes 8 KiB
            let long_names = mt.chance(70);
            let n = if long_names { 45 + mt.below(70) } else { 150 + mt.below(900) };
            let pad = mt.below(24);
            let mut extra = vec![];
            for i in 0..n {
                let f = if long_names { format!("big/h{}{}", i, "x".repeat(150 + (pad * 7 + i * 13) % 90)) } else { format!("big/h{}{}", i, "x".repeat((pad + i) % 24)) };
                world.write_source(&f);
                extra.push(f);
            }
            world.disk.sources.extend(extra.iter().cloned());
            world.includes.entry(uid).or_default().extend(extra);
            stats.classes.insert("big-log".into());
        }
    }
    let hazard = prof.hazard_pct > 0 && mt.chance(prof.hazard_pct);
    if hazard {
        // one step includes a generated file of an unrelated step
        let steps = world.disk.steps.clone();
        for s in steps.iter().filter(|s| s.deps != 0) {
            let anc = world.disk.ancestors(s.uid);
            let cand: Vec<String> = steps.iter().filter(|p| !p.phony && !p.regen && p.uid != s.uid && !anc.contains(&p.uid) && !world.disk.ancestors(p.uid).contains(&s.uid)).flat_map(|p| p.outs.clone()).collect();
            if !cand.is_empty() {
                let f = cand[mt.below(cand.len())].clone();
                world.includes.entry(s.uid).or_default().push(f);
                stats.classes.insert("hazard:includes-unreachable-generated-file".into());
                break;
            }
        }
    }
    world.write_manifest();
    let mut trace: Vec<Value> = vec![];
    let mut viols: Vec<Viol> = vec![];
    let mut sched = OwnedTape::new(case.sched.clone());
    let mut prev_clean: Option<BTreeSet<usize>> = None;
    let mut prev_failed: BTreeSet<usize> = BTreeSet::new();
    let mut prev_spec: Option<InvSpec> = None;
    let empty: Vec<u16> = vec![];
    let own_rounds = case.ops.len().max(prof.min_rounds);
    let nrounds = own_rounds + opts.extra_rounds;
    let manifest0 = world.disk.render();
    let mut fp_text = format!("{:?}", manifest0);
    for round in 0..nrounds {
        let mut t = Tape::new(case.ops.get(round).unwrap_or(&empty));
        let mut edits = vec![];
        let extra = round >= own_rounds;
        if extra && round - own_rounds == 2 {
            // a small edit before the last appended build
            let s = world.disk.sources[0].clone();
            world.write_source(&s);
            edits.push(format!("modify {}", s));
        }
        let repeat = !extra && round > 0 && prev_spec.is_some() && t.chance(prof.repeat_pct);
        if round > 0 && !repeat {
            let ne = t.below(prof.max_edits + 1);
            for _ in 0..ne {
                if let Some(d) = apply_edit(&mut world, &mut t, prof) {
                    if d != "no edit" {
                        let word = d.split(' ').next().unwrap_or("");
                        stats.classes.insert(format!("edit:{}", if d.starts_with("includes of") { "includes" } else { word }));
                        edits.push(d);
                    }
                }
            }
        }
        if !edits.is_empty() {
            prev_clean = None;
        }
        if world.next.as_ref() == Some(&world.disk) {
            world.next = None;
        }
        if world.next.is_none() {
            world.write_manifest();
        }
        let mut spec = if extra {
            InvSpec { j: 2, ..InvSpec::default() }
        } else if repeat {
            let mut s = prev_spec.clone().unwrap();
            s.faults.clear();
            s.kill_at = None;
            s.restat = false;
            s
        } else {
            gen_spec(&mut t, &world, prof)
        };
        if let Some((r, i, b)) = opts.fault {
            if r == round {
                spec.db_fault = Some((i, b));
            }
        }
        let mut forced_choices = None;
        if let Some((choices, failing)) = &opts.forced {
            if round + 1 == nrounds {
                spec.faults = failing.iter().map(|u| (*u, Fault::Fail)).collect();
                spec.kill_at = None;
                spec.restat = false;
                forced_choices = Some(choices.clone());
            }
        }
        prev_spec = Some(spec.clone());
        let spec_desc = json!({"j": spec.j, "k": spec.k, "targets": spec.targets, "faults": format!("{:?}", spec.faults), "kill_at": spec.kill_at, "restat": spec.restat, "use_c": spec.use_c});
        let restat = spec.restat;
        let mut inv = invoke_forced(world, spec, sched, forced_choices);
        stats.invocations += 1;
        last_branching = inv.sh.branching.clone();
        last_cmd_steps = inv.sh.loaded.steps.iter().filter(|s| !s.phony).map(|s| s.uid).collect();
        let attr_before = inv.sh.attr.clone();
        let mut v = judge(&mut inv, prev_clean.as_ref(), &prev_failed, &mut stats);
        write_lens.push(inv.sh.db_lens.clone());
        if let Some((is_build, complete)) = inv.sh.died_in_db {
            let i = opts.fault.map(|f| f.1).unwrap_or(0);
            crashed = Some((inv.sh.db_lens.get(i).copied().unwrap_or(0), is_build && !complete));
            stats.classes.insert(if is_build { "crash-in-build-record".into() } else { "crash-in-path-record".into() });
        } else if crashed.is_some() {
            // C07: after a crash inside a log write every later invocation must load the log, run exactly
            // what the surviving records imply, and attribute them correctly
            let mut extra_v = vec![];
            for x in &v {
                if ["C02", "C03", "C08"].contains(&x.prop.as_str()) && x.key != "summary" {
                    extra_v.push(Viol::new("C07", format!("after-crash:{}", x.key), format!("after a crash inside a log write: {}", x.msg)));
                }
            }
            match &inv.res {
                Res::Error(e) => extra_v.push(Viol::new("C07", "after-crash:error", format!("after a crash inside a log write the next invocation fails: {}", e))),
                Res::Panic(m, f) => extra_v.push(Viol::new("C07", format!("after-crash:{}", util::panic_key(m, f)), format!("after a crash inside a log write n2 panics: {}", m))),
                _ => {}
            }
            v.extend(extra_v);
        }
        let res_desc = format!("{:?}", inv.res);
        let res_kind = match inv.res {
            Res::Panic(..) => 2,
            _ => 0,
        };
        let started: Vec<usize> = inv.sh.starts.iter().map(|s| s.uid).collect();
        let finished: Vec<String> = inv.sh.finishes.iter().map(|f| format!("{}:{:?}", f.uid, f.outcome)).collect();
        trace.push(json!({"edits": edits, "n2": spec_desc, "result": res_desc, "started": started, "finished": finished, "reloaded": inv.sh.reloaded}));
        fp_text.push_str(&format!("|{:?}{:?}{:?}{}", edits, spec_desc, started, res_desc));
        let ok0 = matches!(inv.res, Res::Exit(0));
        let wanted = inv.sh.wanted.clone();
        prev_failed = inv.sh.finishes.iter().filter(|f| f.outcome != Outcome::Success).map(|f| f.uid).collect();
        world = inv.sh.world;
        sched = inv.sh.tape;
        if restat && ok0 {
            // adopt: every dirty wanted step whose files all exist now counts as up to date, keeping its recorded discovered list
            let proj = world.disk.clone();
            let mut order: Vec<usize> = wanted.iter().copied().collect();
            order.sort();
            for u in order {
                let Some(s) = proj.step(u) else { continue };
                if s.phony {
                    continue;
                }
                let attr = world.attributed(&proj);
                // ancestors must be settled first: uid order is a topological order
                if world.dirty(&proj, s, &attr) {
                    let deps = attr.get(&u).map(|r| r.deps.clone()).unwrap_or_default();
                    if let Some(sig) = world.sig_now(&proj, s, &deps) {
                        world.log.push(Rec { outs: s.outs.clone(), deps, sig });
                    }
                }
            }
            let _ = attr_before;
            world.adopted = true;
            stats.nontrivial.insert("C03");
            prev_clean = None;
        } else if ok0 {
            // a repeat build must do nothing -- provided everything wanted is up to date now (a manifest
            // generator whose generated inputs were rebuilt after it ran is legitimately dirty again)
            let attr = world.attributed(&world.disk);
            let all_clean = wanted.iter().all(|u| world.disk.step(*u).map(|s| !world.dirty(&world.disk, s, &attr)).unwrap_or(true))
                && world.disk.regen_closure().iter().all(|u| world.disk.step(*u).map(|s| !world.dirty(&world.disk, s, &attr)).unwrap_or(true));
            prev_clean = if all_clean { Some(wanted) } else { None };
        } else {
            prev_clean = None;
        }
        if hazard {
            v.retain(|x| x.key == "outside-closure" || x.key.starts_with("panic@"));
        }
        let stop = v.iter().any(|x| x.prop == focus && !crate::engine::is_known(known, x)) || matches!(res_kind, 2);
        viols.append(&mut v);
        if stop {
            break;
        }
    }
    let desc = json!({"manifest": manifest0, "includes": format!("{:?}", world.includes), "history": trace});
    std::env::set_current_dir("/").ok();
    HistOut { viols, stats, desc, fp_text, write_lens, crashed, branching: last_branching, cmd_steps: last_cmd_steps }
}

/// C06: graphs with injected back edges.  A cycle through explicit/implicit/order-only edges among the
/// requested steps must be reported as `dependency cycle: a -> ... -> a` naming a genuine cycle, with
/// nothing started; cycles closed only by validation edges (or outside the closure) are built normally.
pub fn run_cycle_case(case: &Case, dir: &Path) -> HistOut {
    let proj_dir = dir.join("p");
    util::fresh_cwd(&proj_dir);
    let mut mt = Tape::new(&case.main);
    let gen = GenOpts { max_steps: 6, deps: false, regen_pct: 0, rsp: false, ..GenOpts::default() };
    let mut proj = Proj::gen(&mut mt, &gen);
    let mut injected = vec![];
    let nback = 1 + mt.below(2);
    for _ in 0..nback {
        let n = proj.steps.len();
        let a = mt.below(n);
        let b = a + mt.below(n - a); // b >= a: an edge from an earlier (or the same) step to a later output
        let o = proj.steps[b].outs[mt.below(proj.steps[b].outs.len())].clone();
        let role = mt.weighted(&[3, 2, 2, 3]);
        let st = &mut proj.steps[a];
        if st.ins.contains(&o) || st.imp.contains(&o) || st.oo.contains(&o) || st.val.contains(&o) {
            continue;
        }
        match role {
            0 => st.ins.push(o.clone()),
            1 => st.imp.push(o.clone()),
            2 => st.oo.push(o.clone()),
            _ => st.val.push(o.clone()),
        }
        injected.push(format!("step {} gets {} input {}", proj.steps[a].uid, ["explicit", "implicit", "order-only", "validation"][role], o));
    }
    let mut world = World::new(proj);
    for s in world.disk.sources.clone() {
        world.write_source(&s);
    }
    world.write_manifest();
    let mut t = Tape::new(case.ops.first().map(|v| v.as_slice()).unwrap_or(&[]));
    let prof = Profile { fault_pct: 15, kill_pct: 0, interrupt_pct: 0, ..Profile::default() };
    let spec = gen_spec(&mut t, &world, &prof);
    let proj = world.disk.clone();
    let wanted = proj.wanted(&spec.targets);
    let cyclic: Vec<usize> = wanted.iter().copied().filter(|u| proj.ancestors(*u).contains(u)).collect();
    let any_cycle = proj.has_ordering_cycle();
    let spec_desc = json!({"j": spec.j, "k": spec.k, "targets": spec.targets, "faults": format!("{:?}", spec.faults)});
    let mut stats = Stats::default();
    let mut inv = invoke(world, spec, OwnedTape::new(case.sched.clone()));
    stats.invocations = 1;
    let mut viols = vec![];
    let res_desc = format!("{:?}", inv.res);
    if !cyclic.is_empty() {
        stats.classes.insert("cycle-in-closure".into());
        stats.nontrivial.insert("C06");
        match &inv.res {
            Res::Error(e) if e.starts_with("dependency cycle: ") => {
                let names: Vec<&str> = e["dependency cycle: ".len()..].split(" -> ").collect();
                let mut ok = names.len() >= 2 && names.first() == names.last();
                for w in names.windows(2) {
                    // w[0] is produced by a step one of whose ordering inputs is w[1]
                    ok &= proj.producer(w[0]).map(|p| proj.ordering_files(p).any(|f| f == w[1])).unwrap_or(false);
                }
                if !ok {
                    viols.push(Viol::new("C06", "bogus-cycle-report", format!("reported {:?}, which is not a cycle of the declared graph", e)));
                }
            }
            other => viols.push(Viol::new("C06", "cycle-not-reported", format!("steps {:?} of the requested closure lie on a dependency cycle, but n2 answered {:?}", cyclic, other))),
        }
        if !inv.sh.starts.is_empty() {
            viols.push(Viol::new("C06", "ran-despite-cycle", format!("steps {:?} were started although the requested graph has a cycle", inv.sh.starts.iter().map(|s| s.uid).collect::<Vec<_>>())));
        }
    } else {
        if any_cycle {
            stats.classes.insert("cycle-outside-closure".into());
            stats.nontrivial.insert("C06");
        }
        if proj.steps.iter().any(|s| s.val.iter().any(|v| proj.producer(v).map(|p| p.uid >= s.uid).unwrap_or(false))) {
            stats.classes.insert("validation-back-edge".into());
            stats.nontrivial.insert("C06");
        }
        let mut v = judge(&mut inv, None, &BTreeSet::new(), &mut stats);
        if let Res::Error(e) = &inv.res {
            if e.starts_with("dependency cycle") {
                v.push(Viol::new("C06", "false-cycle", format!("n2 reports {:?} but no requested step lies on a cycle of ordering edges", e)));
            }
        }
        viols.append(&mut v);
    }
    let manifest0 = inv.proj_before.render();
    let started: Vec<usize> = inv.sh.starts.iter().map(|s| s.uid).collect();
    let fp_text = format!("{:?}{:?}{:?}{}", manifest0, spec_desc, started, res_desc);
    let desc = json!({"manifest": manifest0, "injected": injected, "n2": spec_desc, "result": res_desc, "started": started});
    std::env::set_current_dir("/").ok();
    HistOut { viols, stats, desc, fp_text, write_lens: vec![], crashed: None, branching: vec![], cmd_steps: vec![] }
}

/// C08 (a): record shapes.  One step with `nouts` outputs and `ndeps` reported dependencies whose names
/// have the given length; build, rebuild (nothing may run, what is loaded must equal what was written),
/// touch one dependency (the step must run), rebuild again.
pub fn run_shape_case(nouts: usize, ndeps: usize, namelen: usize, multibyte: bool, extra_steps: usize, dir: &Path) -> HistOut {
    let proj_dir = dir.join("p");
    util::fresh_cwd(&proj_dir);
    let mk = |prefix: &str, i: usize| -> String {
        // components of at most 200 bytes, total length about `namelen`
        let unit = if multibyte { "\u{e9}\u{20ac}" } else { "ab" };
        let mut name = format!("{}{}", prefix, i);
        let mut comp = 0;
        while name.len() < namelen {
            if comp >= 190 {
                name.push('/');
                comp = 0;
            }
            name.push_str(unit);
            comp += unit.len();
        }
        name
    };
    let outs: Vec<String> = (0..nouts).map(|i| mk("out", i)).collect();
    let deps: Vec<String> = (0..ndeps).map(|i| mk("h/d", i)).collect();
    let mut steps = vec![Step { uid: 0, outs: outs.clone(), nexp: 1 + (nouts - 1) / 2, ins: vec!["s0".into()], imp: vec![], oo: vec![], val: vec![], phony: false, ver: 0, pool: None, rsp: None, deps: 1, restat: false, regen: false, subgen: false }];
    for k in 0..extra_steps {
        steps.push(Step { uid: k + 1, outs: vec![format!("e{}", k)], nexp: 1, ins: vec![outs[k % nouts].clone()], imp: vec![], oo: vec![], val: vec![], phony: false, ver: 0, pool: None, rsp: None, deps: (k % 2) as u8, restat: false, regen: false, subgen: false });
    }
    let n = steps.len();
    let mut sources = vec!["s0".to_string()];
    sources.extend(deps.iter().cloned());
    let proj = Proj { manifest: "build.ninja".into(), sources, steps, pools: vec![], order: (0..n).rev().collect(), defaults: vec![], builddir: None, style: 0 };
    let mut world = World::new(proj);
    for s in world.disk.sources.clone() {
        world.write_source(&s);
    }
    world.includes.insert(0, deps.clone());
    world.write_manifest();
    let mut stats = Stats::default();
    let mut viols = vec![];
    let mut sched = OwnedTape::new(vec![]);
    let mut prev_clean: Option<BTreeSet<usize>> = None;
    let mut trace = vec![];
    for round in 0..4 {
        if round == 2 && ndeps > 0 {
            let d = deps[ndeps / 2].clone();
            world.clock.touch(&d);
            prev_clean = None;
        }
        let spec = InvSpec { j: 2, ..InvSpec::default() };
        let mut inv = invoke(world, spec, sched);
        stats.invocations += 1;
        let mut v = judge(&mut inv, prev_clean.as_ref(), &BTreeSet::new(), &mut stats);
        let started: Vec<usize> = inv.sh.starts.iter().map(|s| s.uid).collect();
        if round == 2 && ndeps > 0 && !started.contains(&0) {
            v.push(Viol::new("C08", "dep-edit-ignored", format!("a recorded dependency (#{} of {}) was touched but the step did not run", ndeps / 2, ndeps)));
        }
        if let Res::Panic(m, f) = &inv.res {
            v.push(Viol::new("C08", util::panic_key(m, f), format!("n2 panicked: {}", m)));
        }
        if let Res::Error(e) = &inv.res {
            v.push(Viol::new("C08", "error", format!("n2 failed: {}", e)));
        }
        trace.push(json!({"round": round, "result": format!("{:?}", inv.res), "started": started}));
        prev_clean = if matches!(inv.res, Res::Exit(0)) { Some(inv.sh.wanted.clone()) } else { None };
        world = inv.sh.world;
        sched = inv.sh.tape;
        let stop = v.iter().any(|x| x.prop == "C08");
        viols.append(&mut v);
        if stop {
            break;
        }
    }
    let fp_text = format!("shape {} {} {} {} {}", nouts, ndeps, namelen, multibyte, extra_steps);
    let desc = json!({"shape": {"outputs": nouts, "reported_deps": ndeps, "name_len": namelen, "multibyte": multibyte, "extra_steps": extra_steps}, "history": trace});
    stats.nontrivial.insert("C08");
    std::env::set_current_dir("/").ok();
    HistOut { viols, stats, desc, fp_text, write_lens: vec![], crashed: None, branching: vec![], cmd_steps: vec![] }
}

/// Pinned reproduction of finding F10: a name that survives only in `.n2_db` is accepted as a target.
pub fn run_f10_scenario(dir: &Path) -> HistOut {
    let proj_dir = dir.join("p");
    util::fresh_cwd(&proj_dir);
    let mk = |uid: usize, out: &str| Step { uid, outs: vec![out.to_string()], nexp: 1, ins: vec!["s0".into()], imp: vec![], oo: vec![], val: vec![], phony: false, ver: 0, pool: None, rsp: None, deps: 0, restat: false, regen: false, subgen: false };
    let proj = Proj { manifest: "build.ninja".into(), sources: vec!["s0".into()], steps: vec![mk(0, "a"), mk(1, "b")], pools: vec![], order: vec![0, 1], defaults: vec![], builddir: None, style: 0 };
    let mut world = World::new(proj);
    world.write_source("s0");
    world.write_manifest();
    let mut stats = Stats::default();
    let inv = invoke(world, InvSpec { j: 1, ..InvSpec::default() }, OwnedTape::new(vec![]));
    let mut world = inv.sh.world;
    world.disk.steps.remove(0);
    world.disk.order = vec![0];
    world.write_manifest();
    let mut inv = invoke(world, InvSpec { j: 1, targets: vec!["a".into()], ..InvSpec::default() }, OwnedTape::new(vec![]));
    let viols = judge(&mut inv, None, &BTreeSet::new(), &mut stats);
    let desc = json!({"scenario": "build a and b; remove the statement producing `a`; request `a`", "result": format!("{:?}", inv.res), "stdout": inv.stdout});
    std::env::set_current_dir("/").ok();
    HistOut { viols, stats, desc, fp_text: "F10".into(), write_lens: vec![], crashed: None, branching: vec![], cmd_steps: vec![] }
}


/// Exhaustive exploration of completion orders x failing subsets for the last round of a (short) history:
/// odometer over the observed branching factors.  Returns (runs, violations of `focus`, sample description,
/// distinct schedules, whether the enumeration was cut by `max_runs`).
pub fn explore_schedules(case: &Case, prof: &Profile, dir: &Path, focus: &str, known: &[crate::engine::Finding], max_runs: usize) -> (u64, Vec<Viol>, Value, Vec<u64>, bool, Stats) {
    let mut runs = 0u64;
    let mut fps = vec![];
    let mut stats_all = Stats::default();
    // a first run with no failures tells us the command steps of the last round
    let first = run_history_x(case, prof, dir, &HistOpts { focus, known, fault: None, extra_rounds: 0, forced: Some((vec![], vec![])) });
    runs += 1;
    let own: Vec<Viol> = first.viols.iter().filter(|v| v.prop == focus && !crate::engine::is_known(known, v)).cloned().collect();
    if !own.is_empty() {
        return (runs, own, first.desc, fps, false, first.stats);
    }
    let steps = first.cmd_steps.clone();
    // failing subsets: all of them for <= 4 command steps, else none + singletons + pairs
    let mut subsets: Vec<Vec<usize>> = vec![vec![]];
    if steps.len() <= 4 {
        for mask in 1..(1usize << steps.len()) {
            subsets.push(steps.iter().enumerate().filter(|(i, _)| mask >> i & 1 == 1).map(|(_, u)| *u).collect());
        }
    } else {
        for (i, a) in steps.iter().enumerate() {
            subsets.push(vec![*a]);
            for b in &steps[i + 1..] {
                subsets.push(vec![*a, *b]);
            }
        }
    }
    let mut cut = false;
    let mut sample = first.desc.clone();
    'outer: for failing in &subsets {
        let mut choices: Vec<usize> = vec![];
        loop {
            if runs as usize >= max_runs {
                cut = true;
                break 'outer;
            }
            let h = run_history_x(case, prof, dir, &HistOpts { focus, known, fault: None, extra_rounds: 0, forced: Some((choices.clone(), failing.clone())) });
            runs += 1;
            stats_all.classes.extend(h.stats.classes.iter().cloned());
            stats_all.nontrivial.extend(h.stats.nontrivial.iter().copied());
            let own: Vec<Viol> = h.viols.iter().filter(|v| v.prop == focus && !crate::engine::is_known(known, v)).cloned().collect();
            if !own.is_empty() {
                let mut desc = h.desc.clone();
                desc["forced_schedule"] = json!({"choices": choices, "failing": failing});
                return (runs, own, desc, fps, cut, stats_all);
            }
            let b = &h.branching;
            if b.iter().any(|&x| x >= 2) {
                fps.push(crate::tape::fnv_str(&format!("{}|{:?}|{:?}", h.fp_text, choices, failing)));
                if failing.len() == 1 {
                    sample = h.desc.clone();
                    sample["forced_schedule"] = json!({"choices": choices, "failing": failing, "branching": b});
                }
            }
            // odometer: advance the last position that still has an untried alternative
            let mut c: Vec<usize> = (0..b.len()).map(|i| choices.get(i).copied().unwrap_or(0).min(b[i].saturating_sub(1))).collect();
            let mut advanced = false;
            while let Some(last) = c.pop() {
                let i = c.len();
                if last + 1 < b[i] {
                    c.push(last + 1);
                    advanced = true;
                    break;
                }
            }
            if !advanced {
                break;
            }
            choices = c;
        }
    }
    (runs, vec![], sample, fps, cut, stats_all)
}
