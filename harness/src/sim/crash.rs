//! C07: every log write x every persisted prefix length, for generated histories.

use super::hist::*;
use super::model::GenOpts;
use crate::engine::*;
use crate::tape::{fnv, fnv_str, Case};
use serde_json::{json, Value};

pub struct CrashCheck {
    pub prof: Profile,
    /// long logs (> 8 KiB, records of several KiB): writes and prefix lengths are sampled, not enumerated
    pub big: Profile,
}

impl CrashCheck {
    pub fn new() -> Self {
        let base = Profile::default();
        let prof = Profile { gen: GenOpts { max_steps: 5, regen_pct: 10, ..GenOpts::default() }, fault_pct: 10, kill_pct: 0, interrupt_pct: 0, restat_pct: 0, repeat_pct: 5, ..base };
        let big = Profile { gen: GenOpts { max_steps: 3, regen_pct: 0, ..GenOpts::default() }, big_log_pct: 100, symlink_pct: 0, ..prof.clone() };
        CrashCheck { prof, big }
    }

    fn explore(&self, case: &Case, env: &Env, only: Option<(usize, usize, usize)>) -> CaseOut {
        self.explore_x(case, env, only, false)
    }

    fn explore_x(&self, case: &Case, env: &Env, only: Option<(usize, usize, usize)>, big: bool) -> CaseOut {
        let prof = if big { &self.big } else { &self.prof };
        let mk = |fault| HistOpts { focus: "C07", known: &env.known, fault, extra_rounds: 3, forced: None };
        let mut out = CaseOut::default();
        let mut classes = std::collections::BTreeSet::new();
        let points: Vec<(usize, usize, Option<usize>)>;
        let reference = run_history_x(case, prof, &env.dir, &mk(None));
        out.evals = 1;
        let hfp = fnv_str(&reference.fp_text);
        out.fp = hfp;
        if let Some(v) = reference.viols.iter().find(|v| v.prop == "C07" && !is_known(&env.known, v)) {
            out.viols.push(v.clone());
            out.desc = reference.desc;
            return out;
        }
        match only {
            Some((r, i, b)) => points = vec![(r, i, Some(b))],
            None => {
                let mut p = vec![];
                for (r, lens) in reference.write_lens.iter().enumerate() {
                    for i in 0..lens.len() {
                        // long logs: the first and last writes of an invocation, every 41st in between, and every long record
                        if big && lens.len() > 160 && !(i < 12 || i + 12 >= lens.len() || i % 41 == 0 || lens[i] > 400) {
                            continue;
                        }
                        p.push((r, i, None));
                    }
                }
                points = p;
            }
        }
        let mut sample = Value::Null;
        for (r, i, fixed) in points {
            let mut b = fixed.unwrap_or(0);
            loop {
                let h = run_history_x(case, prof, &env.dir, &mk(Some((r, i, b))));
                out.evals += 1;
                let Some((len, torn)) = h.crashed else { break };
                classes.extend(h.stats.classes.iter().filter(|c| c.starts_with("crash")).cloned());
                if b > 0 && b < len {
                    out.extra_fps.push(fnv(&[&hfp.to_le_bytes(), &[r as u8, i as u8], &(b as u32).to_le_bytes()]));
                    classes.insert("crash-strictly-inside-record".to_string());
                    if torn && sample.is_null() {
                        sample = json!({"crash": {"round": r, "write": i, "bytes_persisted": b, "record_len": len}, "history": h.desc});
                    }
                }
                if let Some(v) = h.viols.iter().find(|v| v.prop == "C07" && !is_known(&env.known, v)) {
                    out.viols.push(Viol::new("C07", v.key.clone(), format!("crash in round {} at log write #{} after {} of {} bytes: {}", r, i, b, len, v.msg)));
                    out.desc = json!({"crash": {"round": r, "write": i, "bytes_persisted": b, "record_len": len}, "history": h.desc});
                    out.replay = Some(json!({"case": case, "fault": [r, i, b]}));
                    out.classes = classes.into_iter().collect();
                    return out;
                }
                for v in h.viols.iter().filter(|v| v.prop == "C07") {
                    out.viols.push(v.clone());
                }
                if fixed.is_some() || b >= len {
                    break;
                }
                b = if !big {
                    b + 1
                } else {
                    // long logs: both ends of every record, thirds, and every 97th byte of long records
                    let mut pts: Vec<usize> = vec![1, 2, 3, len / 3, len / 2, len.saturating_sub(3), len.saturating_sub(2), len.saturating_sub(1), len];
                    let mut k = 97;
                    while k < len {
                        pts.push(k);
                        k += 97;
                    }
                    pts.into_iter().filter(|x| *x > b).min().unwrap_or(len)
                };
            }
        }
        out.nontrivial = !out.extra_fps.is_empty();
        out.desc = sample;
        out.classes = classes.into_iter().collect();
        out
    }
}

impl Check for CrashCheck {
    fn id(&self) -> &'static str {
        "C07"
    }
    fn level(&self) -> &'static str {
        "fault_enumeration"
    }
    fn rule(&self) -> String {
        "random build histories (1-3 rounds of edits+invocations, then build / repeat / edit+build appended); a fault-free run lists the log writes, then for EVERY write index and EVERY persisted length 0..=len the history is re-run with n2 dying inside that write after exactly that many bytes; oracle: every later invocation loads the log, starts exactly the steps the surviving complete records leave dirty (reference model), reads back exactly the complete records with correct attribution, and a repeat build starts nothing. distinct_nontrivial counts crash points strictly inside a record (0 < bytes < len), distinct by (history, round, write, bytes)".into()
    }
    fn assumptions(&self) -> Vec<String> {
        vec![
            "only prefixes of n2's own write sequence are modelled (no reordering of unsynced blocks, no foreign corruption); n2 never fsyncs and the property speaks of byte prefixes".into(),
            "commands in flight at the crash independently apply none, part or all of their effects".into(),
        ]
    }
    fn exhaustive(&self, _tier: Tier) -> Option<String> {
        Some("per generated history: all log writes x all persisted prefix lengths".into())
    }
    fn repeats(&self) -> usize {
        2
    }
    fn max_shrink_iters(&self) -> u32 {
        300
    }
    fn parts(&self, tier: Tier) -> Vec<Part> {
        vec![
            Part { name: "crash", kind: PartKind::Random { cases: tier.pick(1600, 20000), main: 90, ops: 3, oplen: 40, sched: 40 } },
            Part { name: "crash-big", kind: PartKind::Random { cases: tier.pick(16, 480), main: 90, ops: 2, oplen: 40, sched: 40 } },
        ]
    }
    fn run_random(&mut self, part: &str, case: &Case, env: &mut Env) -> CaseOut {
        self.explore_x(case, env, None, part == "crash-big")
    }
    fn run_replay(&mut self, part: &str, replay: &Value, env: &mut Env) -> CaseOut {
        let case: Case = serde_json::from_value(replay["case"].clone()).unwrap_or_default();
        let f = &replay["fault"];
        let only = Some((f[0].as_u64().unwrap_or(0) as usize, f[1].as_u64().unwrap_or(0) as usize, f[2].as_u64().unwrap_or(0) as usize));
        self.explore_x(&case, env, only, part == "crash-big")
    }
}
