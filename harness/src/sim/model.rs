//! Project model, manifest renderer and graph helpers for the `sim` engine.
//! Nothing here shares code with n2: it restates what a Ninja manifest means.

use crate::tape::Tape;
use serde::Serialize;
use std::collections::{BTreeMap, BTreeSet};

#[derive(Clone, Debug, Serialize, PartialEq)]
pub struct Step {
    pub uid: usize,
    pub outs: Vec<String>,
    /// number of explicit outputs (the rest are implicit, after `|`)
    pub nexp: usize,
    pub ins: Vec<String>,
    pub imp: Vec<String>,
    pub oo: Vec<String>,
    pub val: Vec<String>,
    pub phony: bool,
    /// version of the command text
    pub ver: u32,
    pub pool: Option<String>,
    /// response file: content version
    pub rsp: Option<u32>,
    /// 0 none, 1 depfile (gcc), 2 deps = msvc
    pub deps: u8,
    /// the command leaves an output untouched when its content would not change
    pub restat: bool,
    /// a step that regenerates manifest text (the manifest itself, or an included file)
    pub regen: bool,
    /// the generator of the included file `inc.ninja` (the manifest step depends on it)
    pub subgen: bool,
}

#[derive(Clone, Debug, Serialize, PartialEq)]
pub struct Proj {
    pub manifest: String,
    pub sources: Vec<String>,
    pub steps: Vec<Step>,
    pub pools: Vec<(String, usize)>,
    /// statement order (indices into steps)
    pub order: Vec<usize>,
    pub defaults: Vec<String>,
    pub builddir: Option<String>,
    /// rendering style: changes spelling of rules/variables/comments/includes only
    pub style: u32,
}

#[derive(Clone, Debug)]
pub struct GenOpts {
    pub max_steps: usize,
    pub max_sources: usize,
    pub wide: bool,
    pub pools: bool,
    pub phony_dirtying: bool,
    pub deps: bool,
    pub validations: bool,
    pub regen_pct: usize,
    pub multi_out: bool,
    pub undeclared_pool_pct: usize,
    pub builddir_pct: usize,
    pub defaults_pct: usize,
    pub rsp: bool,
    /// chance (percent) that a command step uses a response file
    pub rsp_pct: usize,
    pub alt_manifest_pct: usize,
    /// among self-regenerating projects: share with a separately generated included file
    pub subgen_pct: usize,
}
impl Default for GenOpts {
    fn default() -> Self {
        GenOpts {
            max_steps: 8,
            max_sources: 4,
            wide: false,
            pools: true,
            phony_dirtying: false,
            deps: true,
            validations: true,
            regen_pct: 0,
            multi_out: true,
            undeclared_pool_pct: 0,
            builddir_pct: 0,
            defaults_pct: 0,
            rsp: true,
            rsp_pct: 15,
            alt_manifest_pct: 0,
            subgen_pct: 0,
        }
    }
}

pub const SRC_NAMES: [&str; 6] = ["s0", "s1", "d/s2", "s 3", "d/e/s4", "s\u{e9}5"];

impl Proj {
    pub fn gen(t: &mut Tape, o: &GenOpts) -> Proj {
        let ns = 1 + t.below(o.max_sources.min(SRC_NAMES.len()));
        let mut sources: Vec<String> = SRC_NAMES[..ns].iter().map(|s| s.to_string()).collect();
        let np = if o.pools { t.below(3) } else { 0 };
        let pools: Vec<(String, usize)> = (0..np).map(|i| (format!("p{}", i), t.below(4))).collect();
        let n = 1 + t.below(o.max_steps);
        let mut steps: Vec<Step> = vec![];
        let mut avail: Vec<String> = sources.clone();
        let mut phony_outs: BTreeSet<String> = BTreeSet::new();
        for i in 0..n {
            let no = if o.multi_out && t.chance(25) { 2 + t.below(2) } else { 1 };
            let outs: Vec<String> = (0..no)
                .map(|k| match t.weighted(&[6, 2, 1, 1]) {
                    0 => format!("o{}_{}", i, k),
                    1 => format!("o/{}_{}", i, k),
                    2 => format!("deep/dir/o{}_{}", i, k),
                    _ => format!("o {}_{}", i, k),
                })
                .collect();
            let nexp = 1 + t.below(no);
            let phony = t.chance(15);
            let maxin = if o.wide { 1 } else { 2 };
            let mut pick = |t: &mut Tape, max: usize, dirtying: bool| -> Vec<String> {
                let k = t.below(max + 1);
                let mut v: Vec<String> = vec![];
                for _ in 0..k {
                    let c = if o.wide { avail[t.below(avail.len().min(ns + 2))].clone() } else { avail[t.below(avail.len())].clone() };
                    if dirtying && !phony && !o.phony_dirtying && phony_outs.contains(&c) {
                        continue;
                    }
                    if !v.contains(&c) {
                        v.push(c);
                    }
                }
                v
            };
            let ins = pick(t, maxin, true);
            let mut imp = pick(t, 2, true);
            imp.retain(|x| !ins.contains(x));
            let mut oo = pick(t, 1, false);
            oo.retain(|x| !ins.contains(x) && !imp.contains(x));
            if o.validations && t.chance(8) {
                // generators like CMake repeat an input in the order-only list; it is the same edge twice
                if let Some(d) = ins.first().or(imp.first()).cloned() {
                    oo.insert(0, d);
                }
            }
            let pool = if !phony && o.pools && t.chance(45) {
                if t.chance(o.undeclared_pool_pct) {
                    Some("nopool".to_string())
                } else if !pools.is_empty() && t.chance(70) {
                    Some(pools[t.below(pools.len())].0.clone())
                } else {
                    Some("console".to_string())
                }
            } else {
                None
            };
            let deps = if !phony && o.deps && t.chance(40) { [1u8, 2, 1, 2, 3][t.below(5)] } else { 0 };
            let rsp = if !phony && o.rsp && t.chance(o.rsp_pct) { Some(0) } else { None };
            if phony {
                phony_outs.extend(outs.iter().cloned());
            }
            steps.push(Step { uid: i, outs: outs.clone(), nexp, ins, imp, oo, val: vec![], phony, ver: 0, pool, rsp, deps, restat: t.chance(25), regen: false, subgen: false });
            avail.extend(outs);
        }
        if o.validations {
            let cmd_outs: Vec<String> = steps.iter().filter(|s| !s.phony).flat_map(|s| s.outs.clone()).collect();
            for i in 0..n {
                if !cmd_outs.is_empty() && t.chance(20) {
                    let v = cmd_outs[t.below(cmd_outs.len())].clone();
                    if !steps[i].outs.contains(&v) {
                        steps[i].val.push(v);
                    }
                }
            }
        }
        let manifest = if t.chance(o.alt_manifest_pct) { "alt.ninja".to_string() } else { "build.ninja".to_string() };
        if t.chance(o.regen_pct) {
            let uid = steps.len();
            // the generator may share a step with user targets (an implicit input that is generated)
            let mut imp = vec![];
            if t.chance(30) {
                if let Some(s) = steps.iter().find(|s| !s.phony && s.deps == 0 && s.pool.is_none()) {
                    imp.push(s.outs[0].clone());
                }
            }
            let mut oo = vec![];
            let mut uid = uid;
            if t.chance(o.subgen_pct) {
                // all user statements live in inc.ninja, produced by its own generator from sub.in
                steps.push(Step { uid, outs: vec!["inc.ninja".into()], nexp: 1, ins: vec!["sub.in".into()], imp: vec![], oo: vec![], val: vec![], phony: false, ver: 0, pool: None, rsp: None, deps: 0, restat: false, regen: true, subgen: true });
                sources.push("sub.in".into());
                if t.chance(50) {
                    oo.push("inc.ninja".to_string());
                } else {
                    imp.push("inc.ninja".to_string());
                }
                uid += 1;
            }
            // the generator may be of the write-if-changed kind, and may report what it read through a depfile
            let gen_deps = if o.deps && t.chance(25) { 1 } else { 0 };
            let gen_restat = t.chance(30);
            steps.push(Step { uid, outs: vec![manifest.clone()], nexp: 1, ins: vec!["gen.in".into()], imp, oo, val: vec![], phony: false, ver: 0, pool: None, rsp: None, deps: gen_deps, restat: gen_restat, regen: true, subgen: false });
            sources.push("gen.in".into());
        }
        let n = steps.len();
        let mut order: Vec<usize> = (0..n).collect();
        for i in (1..n).rev() {
            let j = t.below(i + 1);
            order.swap(i, j);
        }
        let mut defaults = vec![];
        if t.chance(o.defaults_pct) {
            let all: Vec<String> = steps.iter().filter(|s| !s.regen).flat_map(|s| s.outs.clone()).collect();
            if !all.is_empty() {
                for _ in 0..1 + t.below(2) {
                    // a default may also name a plain source file (nothing to build for it)
                    let d = if t.chance(20) { sources[t.below(sources.len())].clone() } else { all[t.below(all.len())].clone() };
                    if !defaults.contains(&d) {
                        defaults.push(d);
                    }
                }
            }
        }
        let builddir = if t.chance(o.builddir_pct) { Some(["bd", "out/bd"][t.below(2)].to_string()) } else { None };
        Proj { manifest, sources, steps, pools, order, defaults, builddir, style: 0 }
    }

    pub fn step(&self, uid: usize) -> Option<&Step> {
        self.steps.iter().find(|s| s.uid == uid)
    }
    pub fn step_mut(&mut self, uid: usize) -> Option<&mut Step> {
        self.steps.iter_mut().find(|s| s.uid == uid)
    }
    pub fn cmdline(&self, s: &Step) -> String {
        format!("cmd{}v{} {} -- {}", s.uid, s.ver, s.ins.join(" "), s.outs[..s.nexp].join(" "))
    }
    pub fn rsp_of(&self, s: &Step) -> Option<(String, String)> {
        s.rsp.map(|v| (format!("{}.rsp", s.outs[0]), format!("{} {}", rsp_word(v), s.ins.join("\n"))))
    }
    pub fn depfile_of(&self, s: &Step) -> Option<String> {
        if s.deps == 1 || s.deps == 3 {
            Some(format!("{}.d", s.outs[0]))
        } else {
            None
        }
    }
    pub fn producer(&self, f: &str) -> Option<&Step> {
        self.steps.iter().find(|s| s.outs.iter().any(|o| o == f))
    }
    pub fn by_outs(&self, outs: &[String]) -> Option<&Step> {
        self.steps.iter().find(|s| s.outs == outs)
    }
    pub fn ordering_files<'a>(&self, s: &'a Step) -> impl Iterator<Item = &'a String> {
        s.ins.iter().chain(&s.imp).chain(&s.oo)
    }
    pub fn dirtying_files<'a>(&self, s: &'a Step) -> impl Iterator<Item = &'a String> {
        s.ins.iter().chain(&s.imp)
    }
    pub fn ordering_producers(&self, s: &Step) -> Vec<usize> {
        let mut v = vec![];
        for f in self.ordering_files(s) {
            if let Some(p) = self.producer(f) {
                if !v.contains(&p.uid) {
                    v.push(p.uid);
                }
            }
        }
        v
    }
    /// Transitive ordering ancestors (steps producing explicit/implicit/order-only inputs).
    pub fn ancestors(&self, uid: usize) -> BTreeSet<usize> {
        let mut seen = BTreeSet::new();
        let Some(s) = self.step(uid) else { return seen };
        let mut st = self.ordering_producers(s);
        while let Some(p) = st.pop() {
            if seen.insert(p) {
                if let Some(ps) = self.step(p) {
                    st.extend(self.ordering_producers(ps));
                }
            }
        }
        seen
    }
    /// Steps needed for the given files: closure over explicit, implicit, order-only and validation inputs.
    pub fn closure(&self, targets: &[String]) -> BTreeSet<usize> {
        let mut seen = BTreeSet::new();
        let mut st: Vec<usize> = targets.iter().filter_map(|t| self.producer(t).map(|s| s.uid)).collect();
        while let Some(p) = st.pop() {
            if seen.insert(p) {
                let s = self.step(p).unwrap();
                for f in s.ins.iter().chain(&s.imp).chain(&s.oo).chain(&s.val) {
                    if let Some(q) = self.producer(f) {
                        st.push(q.uid);
                    }
                }
            }
        }
        seen
    }
    pub fn all_outs(&self) -> Vec<String> {
        self.steps.iter().flat_map(|s| s.outs.clone()).collect()
    }
    /// The wanted set of the second phase for the given command-line targets.
    pub fn wanted(&self, targets: &[String]) -> BTreeSet<usize> {
        if !targets.is_empty() {
            let t: Vec<String> = targets.iter().filter(|t| **t != self.manifest).cloned().collect();
            self.closure(&t)
        } else if !self.defaults.is_empty() {
            self.closure(&self.defaults)
        } else {
            let all: Vec<String> = self.all_outs().into_iter().filter(|o| *o != self.manifest).collect();
            self.closure(&all)
        }
    }
    pub fn has_subgen(&self) -> bool {
        self.steps.iter().any(|s| s.subgen)
    }
    pub fn regen_closure(&self) -> BTreeSet<usize> {
        self.closure(&[self.manifest.clone()])
    }
    pub fn pool_depth(&self, name: &str) -> Option<usize> {
        if name == "console" {
            // may be re-declared by the manifest; the declaration wins
            if let Some(p) = self.pools.iter().find(|p| p.0 == name) {
                return Some(p.1);
            }
            return Some(1);
        }
        self.pools.iter().find(|p| p.0 == name).map(|p| p.1)
    }
    /// All file names mentioned anywhere in the manifest.
    pub fn mentioned(&self) -> BTreeSet<String> {
        let mut m = BTreeSet::new();
        for s in &self.steps {
            for f in s.outs.iter().chain(&s.ins).chain(&s.imp).chain(&s.oo).chain(&s.val) {
                m.insert(f.clone());
            }
        }
        m.extend(self.defaults.iter().cloned());
        m.insert(self.manifest.clone());
        m
    }
    /// Is there a genuine cycle through ordering edges among `uids`?  Returns one as file names.
    pub fn has_ordering_cycle(&self) -> bool {
        self.steps.iter().any(|s| self.ancestors(s.uid).contains(&s.uid))
    }

    // --------------------------------------------------------------------------------------
    // rendering

    pub fn render(&self) -> BTreeMap<String, String> {
        let mut files: BTreeMap<String, String> = BTreeMap::new();
        let st = self.style;
        let rule_name = |uid: usize| match st % 3 {
            0 => format!("r{}", uid),
            1 => format!("rule_{}_{}", st, uid),
            _ => format!("q{}.x-{}", uid, st % 7),
        };
        let mut t = String::new();
        if st % 2 == 1 {
            t += &format!("# generated, style {}\n\n", st);
        }
        if let Some(b) = &self.builddir {
            t += &format!("builddir = {}\n", b);
        }
        for (p, d) in &self.pools {
            t += &format!("pool {}\n  depth = {}\n", p, d);
        }
        let use_var = st % 4 >= 2;
        // one generic rule shared by all plain command steps: command text and pool come from build-level bindings
        let shared = st % 7 == 5;
        if shared {
            t += "rule shared\n  command = $cmdtext $in -- $out\n  pool = $mypool\n";
        }
        // everything so far (header, builddir, pools, the shared rule) stays in front of an include
        let prelude = std::mem::take(&mut t);
        let mut inc = String::new();
        let has_subgen = self.steps.iter().any(|s| s.subgen);
        let split = st % 5 == 3 || has_subgen;
        for (k, &i) in self.order.iter().enumerate() {
            let s = &self.steps[i];
            let mut b = String::new();
            let via_shared = shared && !s.phony && s.deps == 0 && s.rsp.is_none() && !s.regen;
            let rule = if s.phony {
                "phony".to_string()
            } else if via_shared {
                "shared".to_string()
            } else {
                let rn = rule_name(s.uid);
                if use_var {
                    b += &format!("c{}_{} = cmd{}v{}\n", s.uid, st, s.uid, s.ver);
                    b += &format!("rule {}\n  command = $c{}_{} $in -- $out\n", rn, s.uid, st);
                } else {
                    b += &format!("rule {}\n  command = cmd{}v{} $in -- $out\n", rn, s.uid, s.ver);
                }
                if s.deps == 1 || s.deps == 3 {
                    b += &format!("  depfile = {}.d\n", s.outs[0]);
                }
                if s.deps == 2 || s.deps == 3 {
                    b += "  deps = msvc\n";
                }
                if let Some(v) = s.rsp {
                    b += &format!("  rspfile = {}.rsp\n  rspfile_content = {} $in_newline\n", s.outs[0], rsp_word(v));
                }
                if st % 2 == 1 {
                    b += &format!("  description = step {}\n", s.uid);
                }
                rn
            };
            if st % 3 == 1 {
                b += "# a comment between statements\n";
            }
            b += &format!("build {}", esc_list(&s.outs[..s.nexp]));
            if s.nexp < s.outs.len() {
                b += &format!(" | {}", esc_list(&s.outs[s.nexp..]));
            }
            b += &format!(": {}", rule);
            if !s.ins.is_empty() {
                b += &format!(" {}", esc_list(&s.ins));
            }
            if !s.imp.is_empty() {
                b += &format!(" | {}", esc_list(&s.imp));
            }
            // an order-only entry that expands to nothing (an unset variable): an input named "", which nothing
            // produces and which orders nothing -- but it must stay in its own section
            let empty_oo = st % 11 == 7 && !s.val.is_empty() && !s.phony;
            if !s.oo.is_empty() || empty_oo {
                b += " ||";
                if !s.oo.is_empty() {
                    b += &format!(" {}", esc_list(&s.oo));
                }
                if empty_oo {
                    b += " $nothing_zz";
                }
            }
            if !s.val.is_empty() {
                b += &format!(" |@ {}", esc_list(&s.val));
            }
            b += "\n";
            if via_shared {
                b += &format!("  cmdtext = cmd{}v{}\n", s.uid, s.ver);
                if let Some(p) = &s.pool {
                    b += &format!("  mypool = {}\n", p);
                }
            } else if let Some(p) = &s.pool {
                if !s.phony {
                    b += &format!("  pool = {}\n", p);
                }
            }
            // In split style the second half of the statements lives in an included file.
            if (has_subgen && !s.regen) || (!has_subgen && split && k >= self.order.len() / 2 && !s.regen) {
                inc += &b;
            } else {
                t += &b;
            }
        }
        if split && !inc.is_empty() {
            if has_subgen || st % 2 == 0 {
                t += "include inc.ninja\n";
            } else {
                // the include sits in the middle of the main file: statements after it may produce what
                // statements inside it consume
                let marker = "\u{1}INCLUDE\u{1}";
                let _ = marker;
                let lines: Vec<&str> = t.split_inclusive('\n').collect();
                // cut at a statement boundary (a line starting with `rule`, `build`, `c<digit>` or `#`) near the middle
                let mut cut = lines.len();
                for (i, l) in lines.iter().enumerate().skip(lines.len() / 2) {
                    if l.starts_with("rule ") || l.starts_with("build ") || l.starts_with('#') || (l.starts_with('c') && l.contains(" = cmd")) {
                        cut = i;
                        break;
                    }
                }
                let mut nt: String = lines[..cut].concat();
                nt += "include inc.ninja\n";
                nt += &lines[cut..].concat();
                t = nt;
            }
            files.insert("inc.ninja".into(), inc);
        }
        if !self.defaults.is_empty() {
            t += &format!("default {}\n", esc_list(&self.defaults));
        }
        files.insert(self.manifest.clone(), prelude + &t);
        files
    }
}

/// First word of a response file of content version v: its length goes up and down with v, so that a rewritten
/// response file is sometimes shorter than the one it replaces.
pub fn rsp_word(v: u32) -> String {
    // consecutive versions: shorter, equal length, longer, equal length, shorter, ...
    format!("rsp{}{}", v, "x".repeat(((((v + 1) / 2) as usize) * 5 + 9) % 12))
}

pub fn esc(p: &str) -> String {
    let mut o = String::new();
    for c in p.chars() {
        match c {
            '$' => o.push_str("$$"),
            ' ' => o.push_str("$ "),
            ':' => o.push_str("$:"),
            _ => o.push(c),
        }
    }
    o
}
pub fn esc_list(v: &[String]) -> String {
    v.iter().map(|p| esc(p)).collect::<Vec<_>>().join(" ")
}

/// Reference lexical resolution of '/'-separated relative paths used by the sim engine.
pub fn refcanon(p: &str) -> String {
    let rooted = p.starts_with('/');
    let mut st: Vec<&str> = vec![];
    let mut ups = 0;
    for c in p.split('/') {
        match c {
            "" | "." => {}
            ".." => {
                if st.pop().is_none() && !rooted {
                    ups += 1;
                }
            }
            c => st.push(c),
        }
    }
    let mut parts: Vec<&str> = vec![];
    for _ in 0..ups {
        parts.push("..");
    }
    parts.extend(st);
    let body = parts.join("/");
    if rooted {
        format!("/{}", body)
    } else if body.is_empty() {
        ".".to_string()
    } else {
        body
    }
}

/// An alternative spelling of the same location (never touching the final component).
pub fn respell(p: &str, k: usize) -> String {
    match k % 4 {
        0 => p.to_string(),
        1 => format!("./{}", p),
        // one level up, or (for names of odd length) two levels at a time
        2 if p.len() % 2 == 0 => format!("zz/../{}", p),
        2 => format!("zz/yy/../../{}", p),
        _ => match p.rfind('/') {
            Some(i) => format!("{}//{}", &p[..i], &p[i + 1..]),
            None => format!(".//{}", p),
        },
    }
}

/// Like `refcanon`, keeping a trailing separator (n2 treats it as significant).
pub fn refcanon_keep_trailing(p: &str) -> String {
    let c = refcanon(p);
    if p.ends_with('/') && c != "." && !c.ends_with('/') {
        format!("{}/", c)
    } else {
        c
    }
}

/// Spellings of a command-line target: those of `respell` plus two that mix the separator characters
/// (n2 reads both `/` and `\` as separators).
pub fn respell_target(p: &str, k: usize) -> String {
    match k % 6 {
        4 => match p.rfind('/') {
            Some(i) => format!("{}/\\{}", &p[..i], &p[i + 1..]),
            None => format!(".\\/{}", p),
        },
        5 => format!(".\\{}", p).replace(".\\", ".\\./"),
        k => respell(p, k),
    }
}
