pub mod crash;
pub mod exec;
pub mod hist;
pub mod model;
pub mod props;
pub mod world;
