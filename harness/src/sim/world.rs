//! The simulated project on a real (tmpfs) directory plus the reference model
//! of n2's up-to-date rule (DESIGN.md 4.4) and of clean-build contents (4.5).

use super::model::*;
use crate::tape::fnv;
use crate::util::{self, Clock};
use std::collections::{BTreeMap, BTreeSet, HashMap};
use std::time::SystemTime;

pub type Stamp = (String, SystemTime);

#[derive(Clone, Debug, PartialEq)]
pub struct Sig {
    pub ins: Vec<Stamp>,
    pub disc: Vec<Stamp>,
    pub cmdline: String,
    pub rsp: Option<(String, String)>,
    pub outs: Vec<Stamp>,
}

#[derive(Clone, Debug)]
pub struct Rec {
    pub outs: Vec<String>,
    pub deps: Vec<String>,
    pub sig: Sig,
}

pub struct World {
    /// What the manifest on disk says (what n2 loads next).
    pub disk: Proj,
    /// What the generator step will write when it next runs (self-regenerating projects).
    pub next: Option<Proj>,
    pub clock: Clock,
    /// The model's own log of completion records.
    pub log: Vec<Rec>,
    /// True include set of each step (scenario state, not visible in the manifest).
    pub includes: BTreeMap<usize, Vec<String>>,
    pub src_ver: BTreeMap<String, u32>,
    /// Set when an adopt (restat) invocation happened: outputs may legitimately differ from a clean build.
    pub adopted: bool,
    /// Outputs whose content the harness itself damaged/removed are tracked only through the fs.
    pub stash: Vec<Step>,
    /// Build records n2 has completely written to its log so far (as seen through the write hook).
    pub dbfile: Vec<super::exec::DbRec>,
}

pub fn content_hash(parts: &[&[u8]]) -> String {
    format!("{:016x}", fnv(parts))
}

impl World {
    pub fn new(disk: Proj) -> World {
        World { disk, next: None, clock: Clock(0), log: vec![], includes: BTreeMap::new(), src_ver: BTreeMap::new(), adopted: false, stash: vec![], dbfile: vec![] }
    }

    pub fn write_manifest(&mut self) {
        let files = self.disk.render();
        for (name, text) in files {
            // only touch files whose text changed: an unchanged manifest keeps its mtime
            if util::read_file(&name).as_deref() != Some(text.as_bytes()) {
                self.clock.write(&name, text.as_bytes());
            }
        }
    }

    pub fn write_source(&mut self, name: &str) {
        let v = self.src_ver.entry(name.to_string()).or_default();
        *v += 1;
        let c = format!("{}@{}", name, v);
        self.clock.write(name, c.as_bytes());
    }

    /// Attribution rule: a record applies to step s iff every output it names is currently produced by s
    /// (and by s alone); the latest applicable record wins.
    pub fn attributed(&self, proj: &Proj) -> HashMap<usize, Rec> {
        let mut m = HashMap::new();
        for r in &self.log {
            let mut owner: Option<usize> = None;
            let mut ok = !r.outs.is_empty();
            for o in &r.outs {
                match proj.producer(o) {
                    None => ok = false,
                    Some(p) => match owner {
                        None => owner = Some(p.uid),
                        Some(q) if q == p.uid => {}
                        Some(_) => ok = false,
                    },
                }
            }
            if ok {
                m.insert(owner.unwrap(), r.clone());
            }
        }
        m
    }

    fn stamps(files: &[String]) -> Option<Vec<Stamp>> {
        let mut v = vec![];
        for f in files {
            v.push((f.clone(), util::mtime(f)?));
        }
        Some(v)
    }

    /// Signature of the present state of step s with the given discovered list; None if a file is missing.
    pub fn sig_now(&self, proj: &Proj, s: &Step, deps: &[String]) -> Option<Sig> {
        let ins: Vec<String> = proj.dirtying_files(s).cloned().collect();
        Some(Sig {
            ins: Self::stamps(&ins)?,
            disc: Self::stamps(deps)?,
            cmdline: proj.cmdline(s),
            rsp: proj.rsp_of(s),
            outs: Self::stamps(&s.outs)?,
        })
    }

    /// The stated up-to-date rule.  `attr` = attribution of the log under `proj`.
    pub fn dirty(&self, proj: &Proj, s: &Step, attr: &HashMap<usize, Rec>) -> bool {
        if s.phony {
            return false;
        }
        let rec = attr.get(&s.uid);
        let deps: Vec<String> = rec.map(|r| r.deps.clone()).unwrap_or_default();
        match (self.sig_now(proj, s, &deps), rec) {
            (Some(sig), Some(r)) => sig != r.sig,
            _ => true,
        }
    }

    /// Why dirty (for messages).
    pub fn why_dirty(&self, proj: &Proj, s: &Step, attr: &HashMap<usize, Rec>) -> String {
        let rec = attr.get(&s.uid);
        let deps: Vec<String> = rec.map(|r| r.deps.clone()).unwrap_or_default();
        match (self.sig_now(proj, s, &deps), rec) {
            (None, _) => "a file is missing".into(),
            (_, None) => "no applicable record".into(),
            (Some(sig), Some(r)) => {
                if sig.ins != r.sig.ins {
                    "inputs differ".into()
                } else if sig.disc != r.sig.disc {
                    "discovered deps differ".into()
                } else if sig.cmdline != r.sig.cmdline {
                    "command line differs".into()
                } else if sig.rsp != r.sig.rsp {
                    "rspfile differs".into()
                } else if sig.outs != r.sig.outs {
                    "outputs differ".into()
                } else {
                    "clean".into()
                }
            }
        }
    }

    /// The missing dirtying *source* inputs (no producer) of step s: n2 must report `input … missing`.
    pub fn missing_sources(&self, proj: &Proj, s: &Step) -> Vec<String> {
        proj.dirtying_files(s).filter(|f| proj.producer(f).is_none() && util::mtime(f).is_none()).cloned().collect()
    }

    /// Model bookkeeping after a successful completion: canonicalise, de-duplicate, drop declared
    /// dirtying inputs; append a record unless a file is missing.
    pub fn record_success(&mut self, proj: &Proj, s: &Step, reported: Option<&[String]>) -> Vec<String> {
        let mut deps: Vec<String> = vec![];
        if let Some(names) = reported {
            for n in names {
                let c = refcanon(n);
                if deps.contains(&c) || s.ins.contains(&c) || s.imp.contains(&c) {
                    continue;
                }
                deps.push(c);
            }
        }
        if let Some(sig) = self.sig_now(proj, s, &deps) {
            self.log.push(Rec { outs: s.outs.clone(), deps: deps.clone(), sig });
        }
        deps
    }

    pub fn true_includes(&self, uid: usize) -> Vec<String> {
        self.includes.get(&uid).cloned().unwrap_or_default()
    }

    /// What the command of step s writes into output k, given the bytes it read.
    pub fn output_content(proj: &Proj, s: &Step, k: usize, read: &[(String, Vec<u8>)]) -> String {
        let cmd = proj.cmdline(s);
        let rsp = proj.rsp_of(s).map(|r| r.1).unwrap_or_default();
        let ks = k.to_string();
        let mut parts: Vec<&[u8]> = vec![cmd.as_bytes(), rsp.as_bytes(), ks.as_bytes()];
        for (n, c) in read {
            parts.push(n.as_bytes());
            parts.push(c);
        }
        content_hash(&parts)
    }

    /// Files a command reads: dirtying inputs and its true includes, with the bytes on disk now.
    pub fn read_inputs(&self, proj: &Proj, s: &Step) -> Vec<(String, Vec<u8>)> {
        let mut v = vec![];
        for f in proj.dirtying_files(s).cloned().chain(self.true_includes(s.uid)) {
            let c = util::read_file(&f).unwrap_or_else(|| b"<missing>".to_vec());
            v.push((f, c));
        }
        v
    }

    /// Clean-build oracle: content every output would have if everything were built from the sources.
    pub fn expected_content(&self, proj: &Proj, f: &str, memo: &mut HashMap<String, Vec<u8>>, depth: usize) -> Vec<u8> {
        if let Some(v) = memo.get(f) {
            return v.clone();
        }
        let v = match proj.producer(f) {
            Some(s) if !s.phony && !s.regen && depth < 64 => {
                let k = s.outs.iter().position(|o| o == f).unwrap();
                let mut read = vec![];
                for x in proj.dirtying_files(s).cloned().chain(self.true_includes(s.uid)) {
                    let c = self.expected_content(proj, &x, memo, depth + 1);
                    read.push((x, c));
                }
                Self::output_content(proj, s, k, &read).into_bytes()
            }
            _ => util::read_file(f).unwrap_or_else(|| b"<missing>".to_vec()),
        };
        memo.insert(f.to_string(), v.clone());
        v
    }

    /// Generated files reachable from s through ordering edges (candidates for generated headers).
    pub fn reachable_generated(proj: &Proj, s: &Step) -> Vec<String> {
        let mut v = vec![];
        for a in proj.ancestors(s.uid) {
            if let Some(p) = proj.step(a) {
                if !p.phony && !p.regen {
                    v.extend(p.outs.iter().cloned());
                }
            }
        }
        v
    }

    pub fn all_files_present(&self, proj: &Proj, uids: &BTreeSet<usize>) -> bool {
        uids.iter().all(|u| {
            let s = proj.step(*u).unwrap();
            s.phony || s.outs.iter().all(|o| util::mtime(o).is_some())
        })
    }
}
