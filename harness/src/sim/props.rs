//! The checks served by the `sim` engine: one generator profile per property.

use super::hist::*;
use super::model::GenOpts;
use crate::engine::*;
use crate::tape::{fnv_str, Case};

pub struct SimCheck {
    pub id: &'static str,
    pub prof: Profile,
    pub quick: u64,
    pub thorough: u64,
    pub rule: &'static str,
    pub assume: Vec<&'static str>,
    /// class names (from Stats::classes) that must all be present for a non-trivial case, or a key in Stats::nontrivial
    pub nontrivial: fn(&Stats) -> bool,
}

/// Record shapes for C08: directed boundary sizes first, then pseudo-random ones derived from the index.
pub fn shape_of(u: u64) -> (usize, usize, usize, bool, usize) {
    const DIRECTED: [(usize, usize, usize, bool, usize); 14] = [
        (1, 0, 4, false, 0),
        (1, 1, 4, false, 1),
        (2, 255, 8, false, 0),
        (3, 256, 8, true, 1),
        (40, 3, 300, true, 2),
        (1, 65535, 12, false, 0),
        (1, 2, 4000, true, 0),
        (17, 257, 40, false, 3),
        (1, 1000, 700, true, 1),
        (33, 0, 9, true, 0),
        (2, 4097, 10, false, 0),
        (1, 32767, 12, false, 1),
        (1, 32768, 12, false, 0),
        (5, 70, 1200, false, 2),
    ];
    if (u as usize) < DIRECTED.len() {
        return DIRECTED[u as usize];
    }
    let mut x = u.wrapping_mul(0x9E3779B97F4A7C15) ^ 0xD1B54A32D192ED03;
    let mut next = |n: u64| {
        x ^= x << 13;
        x ^= x >> 7;
        x ^= x << 17;
        (x % n) as usize
    };
    let nouts = 1 + next(40);
    let ndeps = [0, 1, 2, 5, 30, 254, 255, 256, 257, 600][next(10)] + next(3);
    let namelen = [4, 12, 60, 255, 256, 1000, 3000][next(7)];
    (nouts, ndeps, namelen, next(2) == 1, next(4))
}

impl Check for SimCheck {
    fn id(&self) -> &'static str {
        self.id
    }
    fn run_unit(&mut self, _part: &str, u: u64, env: &mut Env) -> CaseOut {
        if _part == "showincludes" {
            return showincludes_unit(u, env.tier.pick(5, 6));
        }
        let (nouts, ndeps, namelen, mb, extra) = shape_of(u);
        let out = run_shape_case(nouts, ndeps, namelen, mb, extra, &env.dir);
        CaseOut { viols: out.viols, nontrivial: true, fp: fnv_str(&out.fp_text), classes: vec!["shape".into()], desc: out.desc, evals: out.stats.invocations.max(1), ..Default::default() }
    }
    fn run_replay(&mut self, _part: &str, replay: &serde_json::Value, env: &mut Env) -> CaseOut {
        if let Some(s) = replay["showincludes_output"].as_str() {
            let (want_inc, want_rest) = showincludes_reference(s.as_bytes());
            let (inc, rest) = n2::verif::extract_showincludes(s.as_bytes().to_vec());
            let mut out = CaseOut { evals: 1, ..Default::default() };
            if inc != want_inc || rest != want_rest {
                out.viols.push(Viol::new("C09", "showincludes-filter", format!("output {:?}: includes {:?} shown {:?}; expected {:?} / {:?}", s, inc, String::from_utf8_lossy(&rest), want_inc, String::from_utf8_lossy(&want_rest))));
            }
            return out;
        }
        if replay["scenario"] == "F10" {
            let out = run_f10_scenario(&env.dir);
            return CaseOut { viols: out.viols, nontrivial: true, fp: 10, desc: out.desc, evals: 1, ..Default::default() };
        }
        // {"shape": [nouts, ndeps, namelen, multibyte, extra]}
        let s = &replay["shape"];
        let g = |i: usize| s[i].as_u64().unwrap_or(1) as usize;
        let mut out = run_shape_case(g(0).max(1), g(1), g(2), s[3].as_bool().unwrap_or(false), g(4), &env.dir);
        if g(1) > 65535 {
            // listed finding F7: the count field of a record is 16 bits wide
            for v in out.viols.iter_mut().filter(|v| v.prop == "C08") {
                v.key = "dep-count-over-65535".into();
            }
        }
        CaseOut { viols: out.viols, nontrivial: true, fp: fnv_str(&out.fp_text), desc: out.desc, evals: 1, ..Default::default() }
    }
    fn pinned(&self) -> Vec<(String, &'static str, serde_json::Value)> {
        match self.id {
            "C08" => vec![("dep-count-over-65535".into(), "shapes", serde_json::json!({"shape": [1, 65536, 12, false, 0]}))],
            "C18" => vec![("unknown-target-known-from-log".into(), "hist", serde_json::json!({"scenario": "F10"}))],
            _ => vec![],
        }
    }
    fn rule(&self) -> String {
        self.rule.to_string()
    }
    fn assumptions(&self) -> Vec<String> {
        let mut v: Vec<String> = self.assume.iter().map(|s| s.to_string()).collect();
        v.push("command execution is scripted through the cfg-gated hook in task::Runner (run_task/process spawning are exercised by the black-box checks instead)".into());
        v.push("file times are set by the harness with a logical clock: every write or touch gets a strictly larger mtime".into());
        v
    }
    fn repeats(&self) -> usize {
        3
    }
    fn max_shrink_iters(&self) -> u32 {
        1500
    }
    fn parts(&self, tier: Tier) -> Vec<Part> {
        let mut v = vec![Part { name: "hist", kind: PartKind::Random { cases: tier.pick(self.quick, self.thorough), main: 120, ops: 7, oplen: 40, sched: 60 } }];
        if ["C01", "C04", "C06", "C19"].contains(&self.id) {
            // a few large graphs (up to 48 steps)
            v.push(Part { name: "large", kind: PartKind::Random { cases: tier.pick(3000, 40_000), main: 700, ops: 3, oplen: 60, sched: 300 } });
        }
        if ["C01", "C04", "C05", "C06"].contains(&self.id) {
            v.push(Part { name: "schedules", kind: PartKind::Random { cases: tier.pick(400, 6000), main: 80, ops: 2, oplen: 40, sched: 30 } });
        }
        if ["C01", "C02", "C03", "C05"].contains(&self.id) {
            v.push(Part { name: "bb-incr", kind: PartKind::Random { cases: tier.pick(160, 3000), main: 100, ops: 5, oplen: 40, sched: 0 } });
        }
        if self.id == "C04" {
            v.push(Part { name: "bb-overlap", kind: PartKind::Random { cases: tier.pick(96, 2000), main: 220, ops: 0, oplen: 0, sched: 0 } });
        }
        if self.id == "C19" {
            v.push(Part { name: "pty", kind: PartKind::Random { cases: tier.pick(24, 300), main: 200, ops: 0, oplen: 0, sched: 0 } });
        }
        if self.id == "C09" {
            v.push(Part { name: "showincludes", kind: PartKind::Enum { units: 9 } });
            v.push(Part { name: "bb-deps", kind: PartKind::Random { cases: tier.pick(64, 1000), main: 20, ops: 0, oplen: 0, sched: 0 } });
        }
        if self.id == "C08" {
            v.push(Part { name: "shapes", kind: PartKind::Enum { units: tier.pick(600, 6000) } });
        }
        if self.id == "C06" {
            v.push(Part { name: "cycles", kind: PartKind::Random { cases: tier.pick(self.quick, self.thorough) / 2, main: 100, ops: 1, oplen: 40, sched: 30 } });
        }
        v
    }
    fn run_random(&mut self, _part: &str, case: &Case, env: &mut Env) -> CaseOut {
        if _part == "bb-overlap" {
            // the C16 task sets on the real binary; here only the overlap measurements are reported
            let mut out = crate::bb::c16::C16.run_case(case, env);
            out.nontrivial = out.classes.iter().any(|c| c == "j-reached" || c == "overlapping-commands");
            out.viols.sort_by_key(|v| v.prop != "C04");
            return out;
        }
        if _part == "bb-incr" {
            return crate::bb::incr::run_incr_case(case, env, self.id);
        }
        if _part == "pty" {
            let mut out = crate::bb::pty::run_pty_case(case, env, false);
            out.viols.sort_by_key(|v| v.prop != "C19");
            return out;
        }
        if _part == "bb-deps" {
            return crate::bb::deps::run_deps_case(case, env, self.id);
        }
        if _part == "schedules" {
            // small graphs, every completion order x failing subsets of the last round
            let prof = Profile { gen: GenOpts { max_steps: 6, max_sources: 2, regen_pct: 0, ..self.prof.gen.clone() }, kill_pct: 0, interrupt_pct: 0, restat_pct: 0, repeat_pct: 0, min_rounds: 1, ..self.prof.clone() };
            let (runs, viols, desc, fps, cut, stats) = explore_schedules(case, &prof, &env.dir, self.id, &env.known, env.tier.pick(300, 4000));
            let mut classes: Vec<String> = vec![if cut { "schedule-enumeration-cut".to_string() } else { "schedule-enumeration-complete".to_string() }];
            classes.extend(stats.classes.iter().filter(|c| !c.starts_with("edit:")).cloned());
            return CaseOut { viols, nontrivial: !fps.is_empty(), fp: fps.first().copied().unwrap_or(0), extra_fps: fps, classes, desc, evals: runs, ..Default::default() };
        }
        if _part == "large" {
            let prof = Profile { gen: GenOpts { max_steps: 48, max_sources: 6, ..self.prof.gen.clone() }, ..self.prof.clone() };
            let out = run_history(case, &prof, &env.dir, self.id, &env.known);
            let nontrivial = (self.nontrivial)(&out.stats);
            let mut classes: Vec<String> = vec!["large-graph".into()];
            if nontrivial {
                classes.push("nontrivial".into());
            }
            return CaseOut { viols: out.viols, nontrivial, fp: fnv_str(&out.fp_text), classes, desc: serde_json::Value::Null, evals: out.stats.invocations.max(1), ..Default::default() };
        }
        let out = if _part == "cycles" { run_cycle_case(case, &env.dir) } else { run_history(case, &self.prof, &env.dir, self.id, &env.known) };
        let nontrivial = (self.nontrivial)(&out.stats);
        let mut classes: Vec<String> = out.stats.classes.iter().cloned().collect();
        if nontrivial {
            classes.push("nontrivial".into());
        }
        if out.stats.hazards > 0 {
            classes.push("hazard-skipped".into());
        }
        CaseOut { viols: out.viols, nontrivial, fp: fnv_str(&out.fp_text), classes, desc: out.desc, evals: out.stats.invocations.max(1), ..Default::default() }
    }
}

fn sched_gen() -> GenOpts {
    GenOpts { phony_dirtying: true, max_steps: 9, ..GenOpts::default() }
}

pub fn sim_check(id: &str) -> Option<SimCheck> {
    let base = Profile::default();
    Some(match id {
        "C01" => SimCheck {
            id: "C01",
            prof: Profile { gen: GenOpts { regen_pct: 15, ..sched_gen() }, fault_pct: 30, kill_pct: 2, ..base },
            quick: 160_000,
            thorough: 2_000_000,
            rule: "random projects (diamonds, multi-output, order-only, phony chains, validation edges, pools, optional self-regenerating manifest) x edit/build histories x -j/-k x scripted completion order and failures; oracle: at every start no transitive producer is running/failed/out-of-date-and-unrun, and no step starts twice per manifest load. Non-trivial: >=2 commands ran concurrently and some command started after one of its producers ran in the same invocation; distinct by fingerprint of manifest+history+trace",
            assume: vec![],
            nontrivial: |s| s.nontrivial.contains("C01") && s.classes.contains("concurrent"),
        },
        "C02" => SimCheck {
            id: "C02",
            prof: Profile { gen: GenOpts { regen_pct: 12, subgen_pct: 40, ..GenOpts::default() }, fault_pct: 20, kill_pct: 5, ..base },
            quick: 150_000,
            thorough: 2_000_000,
            rule: "histories of edits (modify/touch/back-date/delete sources, delete/touch/overwrite outputs, edit command or rspfile text, add/remove steps and edges, change include sets, move outputs) and invocations (target subsets, failing commands, killed n2); oracle after every exit-0 invocation: each wanted output has the content a clean build computes from the sources, and every wanted step that did not run is up to date by an independent model of the manifest rule. Non-trivial: a successful invocation that ran a non-empty proper subset of the wanted command steps",
            assume: vec!["a content change comes with an mtime change; nothing else writes the tree while n2 runs; phony outputs are not used as dirtying inputs (finding F8)", "no -t restat invocations (adopted outputs legitimately differ from a clean build)"],
            nontrivial: |s| s.nontrivial.contains("C02"),
        },
        "C03" => SimCheck {
            id: "C03",
            prof: Profile { restat_pct: 12, repeat_pct: 30, edits: [2, 4, 1, 1, 1, 0, 1, 1, 1, 2, 2, 1, 2, 1], fault_pct: 10, kill_pct: 2, ..base },
            quick: 150_000,
            thorough: 2_000_000,
            rule: "as C02 plus repeated invocations without edits, neutral manifest restyling, order-only edits and -d ninja_compat -t restat; oracle: every started command is out of date by the independent model at the moment it starts, an invocation right after a successful one starts nothing and prints `n2: no work to do`, restat starts nothing. Non-trivial: an invocation that ran a proper non-empty subset of the wanted steps, or a restat invocation",
            assume: vec!["every declared output is written by its command"],
            nontrivial: |s| s.nontrivial.contains("C03"),
        },
        "C04" => SimCheck {
            id: "C04",
            prof: Profile { gen: GenOpts { wide: true, undeclared_pool_pct: 6, max_steps: 10, regen_pct: 30, ..sched_gen() }, edits: [5, 4, 1, 1, 1, 0, 2, 1, 1, 2, 2, 1, 1, 1], fault_pct: 20, kill_pct: 0, ..base },
            quick: 160_000,
            thorough: 2_000_000,
            rule: "wide graphs with 0-2 declared pools (depth 0-3), console, default pool, undeclared pools; -j 1..4,16; scripted completion order and failures; oracle at every start: running <= j and per-pool running <= depth; undeclared pool => `unknown pool` error iff such a step needs to run; retrospective work-conservation so limits are not met by idling. Non-trivial: a pool was at its depth while another command ran, or -j was reached, or an unknown-pool error occurred",
            assume: vec![],
            nontrivial: |s| s.classes.contains("pool-at-depth") || s.classes.contains("j-at-limit") || s.nontrivial.contains("C04"),
        },
        "C05" => SimCheck {
            id: "C05",
            prof: Profile { gen: GenOpts { regen_pct: 10, ..sched_gen() }, fault_pct: 70, interrupt_pct: 8, kill_pct: 0, ..base },
            quick: 160_000,
            thorough: 2_000_000,
            rule: "random failing subsets (plain failure, failure after scribbling on outputs, interruption) x -k absent/1/2/3/9 x -j x completion orders; oracle: no start after a failed producer, no log record for a failed command and it re-runs next time, budget semantics per phase, exit status 0 iff nothing failed. Non-trivial: a failure with other wanted steps still pending",
            assume: vec!["-k >= 1 (the property's domain); -k absent is treated as unlimited, which is what the code does"],
            nontrivial: |s| s.nontrivial.contains("C05"),
        },
        "C06" => SimCheck {
            id: "C06",
            prof: Profile { gen: GenOpts { regen_pct: 20, ..sched_gen() }, fault_pct: 30, kill_pct: 0, ..base },
            quick: 160_000,
            thorough: 2_000_000,
            rule: "C01's graphs and schedules; oracle: no panic, no wait with nothing running, iteration budget, success => every wanted step decided and up to date, retrospective work conservation (a step that was startable at a blocking wait must not start later in that phase). Cyclic graphs are a separate part. Non-trivial: concurrent schedule in which a step started after a producer ran",
            assume: vec!["waiting forever is detected by the deterministic surrogate: a blocking wait with nothing running, or an iteration budget"],
            nontrivial: |s| s.nontrivial.contains("C06") && (s.classes.contains("concurrent") || s.classes.iter().any(|c| c.starts_with("cycle") || c == "validation-back-edge")),
        },
        "C09" => SimCheck {
            id: "C09",
            prof: Profile { gen: GenOpts { deps: true, ..GenOpts::default() }, edits: [1, 4, 1, 1, 3, 0, 1, 1, 1, 1, 6, 1, 1, 0], restat_pct: 6, fault_pct: 10, kill_pct: 2, ..base },
            quick: 150_000,
            thorough: 1_500_000,
            rule: "histories in which reported dependency sets grow, shrink, are replaced, overlap declared and order-only inputs, are spelled differently, include files that later disappear; oracle: started sets agree with the model that replaces the list wholesale at every success (loaded lists compared at every manifest load), missing recorded dep => step runs and build still succeeds. Non-trivial: a history with an include-set change followed by a successful partial rebuild",
            assume: vec!["a command's include set changes only together with a change of something it already reads"],
            nontrivial: |s| s.nontrivial.contains("C02") && s.classes.contains("edit:includes"),
        },
        "C08" => SimCheck {
            id: "C08",
            prof: Profile { edits: [6, 2, 1, 0, 0, 0, 1, 0, 0, 2, 1, 4, 2, 8], fault_pct: 8, kill_pct: 2, repeat_pct: 10, ..base },
            quick: 150_000,
            thorough: 1_500_000,
            rule: "sequences of manifests over a common name pool with builds in between: neutral edits (permute/restyle statements, rename rules and variables, comments, move statements into an included file, add/remove unrelated steps) and invalidating edits (move an output to another step, grow/shrink an output set); oracle: the records read back at every load equal the records written (names, order, hash), each is applied exactly to the step that alone produces all its outputs, started sets equal the model's dirty sets. Non-trivial: an invocation after a manifest edit in which at least one step stayed up to date and one ran",
            assume: vec![],
            nontrivial: |s| s.nontrivial.contains("C02") && (s.classes.contains("edit:restyle") || s.classes.contains("edit:move") || s.classes.contains("edit:remove") || s.classes.contains("edit:add") || s.classes.contains("edit:drop")),
        },
        "C17" => SimCheck {
            id: "C17",
            prof: Profile { gen: GenOpts { regen_pct: 100, alt_manifest_pct: 30, subgen_pct: 35, defaults_pct: 30, ..GenOpts::default() }, edits: [2, 3, 1, 0, 0, 0, 1, 0, 1, 4, 1, 3, 3, 2], fault_pct: 25, kill_pct: 0, unknown_target_pct: 0, ..base },
            quick: 120_000,
            thorough: 1_500_000,
            rule: "self-regenerating manifests (also under -f): manifest edits are queued for the generator step, which rewrites the manifest when it runs; oracle: before the reload only the manifest's closure runs, after it every started step has the outputs/command of the new text and dirtiness follows the model under the new text, generator failure => nothing else runs, clean manifest => no reload. Non-trivial: an invocation that reloaded the manifest",
            assume: vec![],
            nontrivial: |s| s.classes.contains("reload"),
        },
        "C18" => SimCheck {
            id: "C18",
            prof: Profile { gen: GenOpts { defaults_pct: 40, builddir_pct: 30, alt_manifest_pct: 25, regen_pct: 10, ..GenOpts::default() }, target_pct: 75, unknown_target_pct: 12, use_c_pct: 30, fault_pct: 5, kill_pct: 0, hazard_pct: 12, ..base },
            quick: 150_000,
            thorough: 1_500_000,
            rule: "graphs with independent components; targets = subsets of outputs/sources in varying spellings, none (with/without default statements), unknown names; -f/-C/builddir combinations; oracle: started subset of the closure, dirty closure fully started on success, unknown name => error and nothing built, .n2_db only at <dir>/<builddir>/.n2_db. Non-trivial: requested closure is a proper non-empty subset and something ran",
            assume: vec!["names that survive only in the log are not requested (listed finding F10)"],
            nontrivial: |s| s.nontrivial.contains("C02"),
        },
        "C19" => SimCheck {
            id: "C19",
            prof: Profile { gen: GenOpts { regen_pct: 20, ..sched_gen() }, fault_pct: 35, kill_pct: 0, restat_pct: 8, ..base },
            quick: 160_000,
            thorough: 2_000_000,
            rule: "C01/C05 cases with an observer on the Progress interface; oracle at every update: sum of counts = non-phony wanted steps of the phase, running = commands executing, failed = failures so far, finished counts monotone; summary line = number of successful commands. Non-trivial: a failure and concurrency in one invocation",
            assume: vec![],
            nontrivial: |s| s.classes.contains("failure") && s.classes.contains("concurrent"),
        },
        _ => return None,
    })
}

// ---------------------------------------------------------------------------------------------
// C09: the /showIncludes filter, exhaustively over short line sequences

const SI_LINES: [&[u8]; 9] = [
    b"some text",
    b"",
    b"Note: including file: a.h",
    b"Note: including file:    sub/b.h",
    b"Note: including file: c:\\x\\c.h\r",
    b"  Note: including file: indented.h",
    b"Note: including file:",
    b"text with Note: including file: inside",
    b"other\r",
];

/// Reference filter: lines (with their terminators) that start with the prefix are removed; what follows the
/// prefix, without leading spaces and a trailing CR, is an include.
fn showincludes_reference(input: &[u8]) -> (Vec<String>, Vec<u8>) {
    let mut inc = vec![];
    let mut rest = vec![];
    let mut i = 0;
    while i < input.len() {
        let end = input[i..].iter().position(|&c| c == b'\n').map(|p| i + p + 1).unwrap_or(input.len());
        let line = &input[i..end];
        let body = line.strip_suffix(b"\n").unwrap_or(line);
        if let Some(r) = body.strip_prefix(b"Note: including file: ") {
            let r = r.strip_suffix(b"\r").unwrap_or(r);
            let start = r.iter().position(|&c| c != b' ').unwrap_or(0);
            inc.push(String::from_utf8_lossy(&r[start..]).into_owned());
        } else {
            rest.extend_from_slice(line);
        }
        i = end;
    }
    (inc, rest)
}

pub fn showincludes_unit(u: u64, maxlines: usize) -> CaseOut {
    let mut out = CaseOut::default();
    let n = SI_LINES.len() as u64;
    let mut filtered_some = 0u64;
    for l in 0..maxlines {
        for k in 0..n.pow(l as u32) {
            for final_nl in [true, false] {
                let mut idx = vec![u as usize];
                let mut y = k;
                for _ in 0..l {
                    idx.push((y % n) as usize);
                    y /= n;
                }
                let mut input = vec![];
                for (i, &li) in idx.iter().enumerate() {
                    input.extend_from_slice(SI_LINES[li]);
                    if i + 1 < idx.len() || final_nl {
                        input.push(b'\n');
                    }
                }
                out.evals += 1;
                let (want_inc, want_rest) = showincludes_reference(&input);
                let inp = input.clone();
                let _ = crate::util::take_panic();
                let got = std::panic::catch_unwind(move || n2::verif::extract_showincludes(inp));
                let shown = String::from_utf8_lossy(&input).into_owned();
                match got {
                    Err(_) => {
                        let (m, f) = crate::util::take_panic().unwrap_or_default();
                        out.viols.push(Viol::new("C09", crate::util::panic_key(&m, &f), format!("extract_showincludes({:?}) panicked: {}", shown, m)));
                    }
                    Ok((inc, rest)) => {
                        if rest.split(|&c| c == b'\n').any(|l| l.starts_with(b"Note: including file: ")) {
                            out.viols.push(Viol::new("C09", "include-line-shown", format!("output {:?}: an include line is still shown: {:?}", shown, String::from_utf8_lossy(&rest))));
                        } else if inc != want_inc {
                            out.viols.push(Viol::new("C09", "includes-differ", format!("output {:?}: includes {:?}, expected {:?}", shown, inc, want_inc)));
                        } else if rest != want_rest {
                            out.viols.push(Viol::new("C09", "other-output-altered", format!("output {:?}: shown {:?}, expected {:?}", shown, String::from_utf8_lossy(&rest), String::from_utf8_lossy(&want_rest))));
                        }
                        if !want_inc.is_empty() {
                            filtered_some += 1;
                        }
                    }
                }
                if !out.viols.is_empty() {
                    out.replay = Some(serde_json::json!({"showincludes_output": shown}));
                    out.desc = serde_json::json!({"command_output": shown});
                    return out;
                }
            }
        }
    }
    out.nontrivial = true;
    out.fp = 0x5100 + u;
    out.extra_distinct = filtered_some.saturating_sub(1);
    out.desc = serde_json::json!({"first_line": String::from_utf8_lossy(SI_LINES[u as usize]), "outputs_checked": out.evals, "with_include_lines": filtered_some});
    out
}
