//! Scripted executor and observer: the harness side of the n2 hooks, with the
//! oracles that must be evaluated while n2 is running.

use super::model::*;
use super::world::*;
use crate::engine::Viol;
use crate::tape::OwnedTape;
use crate::util;
use n2::verif::{Exec, Finish, Observer, Outcome, StepInfo};
use std::cell::RefCell;
use std::collections::{BTreeMap, BTreeSet, HashMap};
use std::rc::Rc;

#[derive(Clone, Copy, Debug, PartialEq, serde::Serialize)]
pub enum Fault {
    Fail,
    FailScribble,
    Interrupt,
}

#[derive(Clone, Debug, Default, serde::Serialize)]
pub struct InvSpec {
    pub j: usize,
    pub k: Option<usize>,
    /// targets as model names; `spell` selects the spelling given to n2
    pub targets: Vec<String>,
    pub spell: usize,
    pub restat: bool,
    pub explain: bool,
    pub faults: BTreeMap<usize, Fault>,
    /// die when the n-th completion is requested (0-based)
    pub kill_at: Option<usize>,
    /// die inside the n-th log write after persisting `bytes` bytes
    pub db_fault: Option<(usize, usize)>,
    /// run n2 with -C <dir> from the parent directory
    pub use_c: bool,
    /// commands may report their dependencies as absolute paths (canonical or not), as compilers do for system headers
    pub abs_reports: bool,
}

#[derive(Clone, Debug)]
pub struct Running {
    pub uid: usize,
    pub id: usize,
    pub read: Vec<(String, Vec<u8>)>,
    pub start: u64,
}

#[derive(Clone, Debug)]
pub struct StartEv {
    pub uid: usize,
    pub time: u64,
    pub phase: usize,
    pub epoch: usize,
}
#[derive(Clone, Debug)]
pub struct FinishEv {
    pub uid: usize,
    pub time: u64,
    pub outcome: Outcome,
    pub phase: usize,
    pub epoch: usize,
}
#[derive(Clone, Debug)]
pub struct WaitSnap {
    pub time: u64,
    pub phase: usize,
    pub running: Vec<usize>,
}
#[derive(Clone, Debug, PartialEq)]
pub struct DbRec {
    pub outs: Vec<String>,
    pub deps: Vec<String>,
    pub hash: u64,
}

pub struct Shared {
    pub world: World,
    pub spec: InvSpec,
    pub tape: OwnedTape,
    pub time: u64,
    /// number of manifest loads so far in this invocation
    pub loads: usize,
    /// phase id: increases at every load and at the phase-2 marker
    pub phase: usize,
    pub phase2_seen: bool,
    pub reloaded: bool,
    pub n2steps: Vec<StepInfo>,
    /// the manifest as n2 has it loaded (differs from world.disk between regeneration and reload)
    pub loaded: Proj,
    pub regen_since_load: bool,
    pub attr: HashMap<usize, Rec>,
    pub running: Vec<Running>,
    pub starts: Vec<StartEv>,
    pub finishes: Vec<FinishEv>,
    pub waits: Vec<WaitSnap>,
    pub updates: Vec<(usize, [usize; 6])>,
    pub viols: Vec<Viol>,
    pub logs: Vec<String>,
    pub dbw: Vec<DbRec>,
    pub dbr: Vec<(Option<usize>, DbRec)>,
    /// wanted set of the current phase (uids), None when it cannot be computed
    pub wanted: BTreeSet<usize>,
    pub wanted1: BTreeSet<usize>,
    pub max_running: usize,
    pub pool_full_while_other_ran: bool,
    pub j_full: bool,
    pub db_writes: usize,
    pub db_lens: Vec<usize>,
    /// completion choices forced by the exhaustive schedule explorer (index into the sorted running set)
    pub forced: Option<Vec<usize>>,
    /// number of running commands at each completion request
    pub branching: Vec<usize>,
    pub died_in_db: Option<(bool, bool)>,
    pub hazard: Option<String>,
    pub nsteps_total: usize,
    /// model-side record indices appended during this invocation (uid, index in world.log)
    pub appended: Vec<usize>,
    pub manifest_regenerated: bool,
}

impl Shared {
    pub fn new(world: World, spec: InvSpec, tape: OwnedTape) -> Shared {
        Shared {
            loaded: world.disk.clone(),
            regen_since_load: false,
            world,
            spec,
            tape,
            time: 0,
            loads: 0,
            phase: 0,
            phase2_seen: false,
            reloaded: false,
            n2steps: vec![],
            attr: HashMap::new(),
            running: vec![],
            starts: vec![],
            finishes: vec![],
            waits: vec![],
            updates: vec![],
            viols: vec![],
            logs: vec![],
            dbw: vec![],
            dbr: vec![],
            wanted: BTreeSet::new(),
            wanted1: BTreeSet::new(),
            max_running: 0,
            pool_full_while_other_ran: false,
            j_full: false,
            db_writes: 0,
            db_lens: vec![],
            forced: None,
            branching: vec![],
            died_in_db: None,
            hazard: None,
            nsteps_total: 0,
            appended: vec![],
            manifest_regenerated: false,
        }
    }
    pub fn v(&mut self, prop: &str, key: &str, msg: String) {
        if self.viols.len() < 40 {
            self.viols.push(Viol::new(prop, key, msg));
        }
    }
    fn tick(&mut self) -> u64 {
        self.time += 1;
        self.time
    }
    pub fn started_in_epoch(&self, uid: usize) -> bool {
        let e = self.loads;
        self.starts.iter().any(|s| s.uid == uid && s.epoch == e)
    }
    pub fn finished_ok(&self, uid: usize) -> bool {
        self.finishes.iter().any(|f| f.uid == uid && f.outcome == Outcome::Success)
    }
    pub fn failed(&self, uid: usize) -> bool {
        self.finishes.iter().any(|f| f.uid == uid && f.outcome != Outcome::Success)
    }
    fn pool_usage(&self, pool: &str) -> usize {
        self.running.iter().filter(|r| self.loaded.step(r.uid).and_then(|s| s.pool.as_deref()) == Some(pool)).count()
    }
}

pub struct Ex(pub Rc<RefCell<Shared>>);

impl Exec for Ex {
    fn start(&mut self, info: &StepInfo) {
        let mut g = self.0.borrow_mut();
        let sh = &mut *g;
        let now = sh.tick();
        let proj = sh.loaded.clone();
        let Some(step) = proj.by_outs(&info.outs).cloned() else {
            sh.v("C10", "start-unknown-step", format!("n2 started a step with outputs {:?} that the manifest does not declare", info.outs));
            sh.running.push(Running { uid: usize::MAX - info.id, id: info.id, read: vec![], start: now });
            return;
        };
        let uid = step.uid;
        let cmd = proj.cmdline(&step);
        if info.cmdline.as_deref() != Some(cmd.as_str()) {
            let tag = if sh.reloaded { "C17" } else { "C10" };
            sh.v(tag, "cmdline-mismatch", format!("step {} started with command {:?}, the manifest says {:?}", uid, info.cmdline, cmd));
        }
        if info.showincludes != (step.deps == 2 || step.deps == 3) {
            sh.v("C09", "showincludes-flag", format!("step {} has deps = msvc: {}, but n2 will{} scan its output for /showIncludes notes", uid, step.deps >= 2, if info.showincludes { "" } else { " not" }));
        }
        if info.rspfile != proj.rsp_of(&step) {
            sh.v("C10", "rsp-mismatch", format!("step {} rspfile {:?}, the manifest says {:?}", uid, info.rspfile, proj.rsp_of(&step)));
        }
        // C01: at most once per epoch
        if sh.started_in_epoch(uid) {
            sh.v("C01", "double-start", format!("step {} started twice without a reload in between", uid));
        }
        // C18 / C17: inside the wanted set of this phase
        if !sh.wanted.contains(&uid) {
            let tag = if !sh.phase2_seen && sh.loads == 1 { "C17" } else { "C18" };
            sh.v(tag, "outside-closure", format!("step {} started but is outside the requested closure {:?} (phase {})", uid, sh.wanted, sh.phase));
            if tag == "C17" {
                sh.v("C18", "outside-closure", format!("step {} started outside the closure of the manifest during regeneration", uid));
            }
        }
        // C01 / C05: ordering ancestors
        for a in proj.ancestors(uid) {
            let astep = proj.step(a).unwrap();
            if sh.running.iter().any(|r| r.uid == a) {
                sh.v("C01", "ancestor-running", format!("step {} started while its producer step {} was still running", uid, a));
            }
            if sh.failed(a) {
                sh.v("C05", "start-after-failed-ancestor", format!("step {} started although its producer step {} failed", uid, a));
                sh.v("C01", "start-after-failed-ancestor", format!("step {} started although its producer step {} failed", uid, a));
            }
            if !astep.phony && !sh.started_in_epoch(a) && sh.world.dirty(&proj, astep, &sh.attr) {
                let why = sh.world.why_dirty(&proj, astep, &sh.attr);
                sh.v("C01", "ancestor-dirty-not-run", format!("step {} started although its producer step {} neither ran nor is up to date ({})", uid, a, why));
            }
        }
        // C03: only dirty steps run
        if !sh.world.dirty(&proj, &step, &sh.attr) {
            let msg = format!("step {} ({:?}) was started but is up to date by the manifest rule", uid, step.outs);
            sh.v("C03", "ran-clean-step", msg.clone());
            sh.v("C08", "ran-clean-step", msg.clone());
            if step.deps != 0 {
                sh.v("C09", "ran-clean-step", msg.clone());
            }
            if step.regen {
                // C17: when the manifest is up to date its generator does not run
                sh.v("C17", "generator-ran-while-clean", msg);
            }
        }
        // C16 slice: output directories exist
        for o in &step.outs {
            if let Some(par) = std::path::Path::new(o).parent() {
                if !par.as_os_str().is_empty() && !par.is_dir() {
                    sh.v("C16", "outdir-missing", format!("parent directory of {} missing when step {} started", o, uid));
                }
            }
        }
        let read = sh.world.read_inputs(&proj, &step);
        sh.starts.push(StartEv { uid, time: now, phase: sh.phase, epoch: sh.loads });
        sh.running.push(Running { uid, id: info.id, read, start: now });
        sh.max_running = sh.max_running.max(sh.running.len());
        // C04: limits
        if sh.running.len() > sh.spec.j {
            sh.v("C04", "j-exceeded", format!("{} commands running with -j {}", sh.running.len(), sh.spec.j));
        }
        if sh.running.len() == sh.spec.j {
            sh.j_full = true;
        }
        let mut per: BTreeMap<String, usize> = BTreeMap::new();
        for r in &sh.running {
            if let Some(pl) = proj.step(r.uid).and_then(|s| s.pool.clone()) {
                *per.entry(pl).or_default() += 1;
            }
        }
        for (pl, c) in per {
            match proj.pool_depth(&pl) {
                Some(d) if d > 0 => {
                    if c > d {
                        sh.v("C04", "pool-exceeded", format!("pool {} has {} running commands, depth {}", pl, c, d));
                    }
                    if c == d && sh.running.len() > c {
                        sh.pool_full_while_other_ran = true;
                    }
                }
                Some(_) => {}
                None => sh.v("C04", "undeclared-pool-started", format!("step {} of undeclared pool {} was started", uid, pl)),
            }
        }
    }

    fn finish(&mut self, n2_running: usize) -> Finish {
        let mut g = self.0.borrow_mut();
        let sh = &mut *g;
        let now = sh.tick();
        if n2_running != sh.running.len() {
            sh.v("C19", "runner-count", format!("n2 counts {} running commands, {} are running", n2_running, sh.running.len()));
        }
        if sh.running.is_empty() {
            drop(g);
            panic!("DEADLOCK: n2 waits for a completion while nothing is running");
        }
        sh.waits.push(WaitSnap { time: now, phase: sh.phase, running: sh.running.iter().map(|r| r.uid).collect() });
        // simulated death of the n2 process at the n-th completion request
        if sh.spec.kill_at == Some(sh.finishes.len()) {
            sh.spec.kill_at = None;
            abandon_running(sh);
            drop(g);
            n2::verif::die();
        }
        let mut ids: Vec<usize> = sh.running.iter().map(|r| r.uid).collect();
        ids.sort();
        let pick = match &sh.forced {
            Some(f) => ids[f.get(sh.branching.len()).copied().unwrap_or(0).min(ids.len() - 1)],
            None => ids[sh.tape.below(ids.len())],
        };
        sh.branching.push(ids.len());
        let pos = sh.running.iter().position(|r| r.uid == pick).unwrap();
        let run = sh.running.remove(pos);
        let proj = sh.loaded.clone();
        let Some(step) = proj.step(run.uid).cloned() else {
            return Finish { id: run.id, outcome: Outcome::Failure, output: b"unknown step\n".to_vec(), last_lines: vec![], discovered: None };
        };
        let fault = sh.spec.faults.get(&step.uid).copied();
        match fault {
            Some(Fault::Fail) | Some(Fault::FailScribble) => {
                if fault == Some(Fault::FailScribble) && !step.regen {
                    let o = step.outs[0].clone();
                    sh.world.clock.write(&o, b"garbage written by a failing command");
                }
                sh.finishes.push(FinishEv { uid: step.uid, time: now, outcome: Outcome::Failure, phase: sh.phase, epoch: sh.loads });
                return Finish { id: run.id, outcome: Outcome::Failure, output: format!("boom {}\n", step.uid).into_bytes(), last_lines: vec![b"working".to_vec()], discovered: None };
            }
            Some(Fault::Interrupt) => {
                sh.finishes.push(FinishEv { uid: step.uid, time: now, outcome: Outcome::Interrupted, phase: sh.phase, epoch: sh.loads });
                return Finish { id: run.id, outcome: Outcome::Interrupted, output: b"interrupted".to_vec(), last_lines: vec![], discovered: None };
            }
            None => {}
        }
        if step.regen {
            let next = sh.world.next.take().unwrap_or_else(|| sh.world.disk.clone());
            sh.world.disk = next;
            let files = sh.world.disk.render();
            for (name, text) in files {
                // each generator writes its own file (a project without a separate generator for the
                // included file writes both)
                let mine = if step.subgen { name == "inc.ninja" } else { name != "inc.ninja" || !sh.world.disk.has_subgen() };
                // a write-if-changed generator leaves an identical file (and its timestamp) alone
                if mine && !(step.restat && util::read_file(&name).as_deref() == Some(text.as_bytes())) {
                    sh.world.clock.write(&name, text.as_bytes());
                }
            }
            sh.manifest_regenerated = true;
            // only regeneration in the first phase obliges n2 to reload (a generator of an included file
            // that runs again among the user targets is simply dirty work)
            if !sh.phase2_seen {
                sh.regen_since_load = true;
            }
            // a generator may report what it read through a depfile, like any other command
            let reported: Option<Vec<String>> = if step.deps != 0 { Some(sh.world.true_includes(step.uid).into_iter().filter(|f| std::path::Path::new(f).is_file()).collect()) } else { None };
            // the record is judged against the manifest n2 currently has loaded
            let before = sh.world.log.len();
            sh.world.record_success(&proj, &step, reported.as_deref());
            if sh.world.log.len() > before {
                sh.appended.push(before);
            }
            sh.finishes.push(FinishEv { uid: step.uid, time: now, outcome: Outcome::Success, phase: sh.phase, epoch: sh.loads });
            return Finish { id: run.id, outcome: Outcome::Success, output: vec![], last_lines: vec![], discovered: reported };
        }
        write_outputs(sh, &proj, &step, &run.read, usize::MAX);
        // reported dependencies: the true include set, in varying spellings, with duplicates and declared inputs mixed in
        let reported: Option<Vec<String>> = if step.deps != 0 {
            let inc = sh.world.true_includes(step.uid);
            let mut v: Vec<String> = vec![];
            for d in inc.iter() {
                let k = sh.tape.below(if sh.spec.abs_reports { 6 } else { 4 });
                let cwd = std::env::current_dir().map(|p| p.to_string_lossy().into_owned()).unwrap_or_default();
                v.push(match k {
                    4 => format!("{}/{}", cwd, d),
                    5 => format!("{}/zz/../{}", cwd, d),
                    _ => respell(d, k),
                });
            }
            // compilers may list more than the command really depends on: declared inputs, the
            // same file twice, order-only inputs, unrelated headers -- but only files that exist
            if sh.tape.chance(30) {
                if let Some(f) = step.ins.first().or(step.imp.first()) {
                    v.push(f.clone());
                }
            }
            if sh.tape.chance(30) {
                if let Some(f) = v.first().cloned() {
                    v.push(f);
                }
            }
            if sh.tape.chance(20) {
                if let Some(f) = step.oo.first() {
                    v.push(f.clone());
                }
            }
            if sh.tape.chance(20) {
                let extra: Vec<&String> = proj.sources.iter().filter(|f| *f != "gen.in" && *f != "sub.in").collect();
                if !extra.is_empty() {
                    v.push(extra[sh.tape.below(extra.len())].clone());
                }
            }
            v.retain(|f| std::path::Path::new(&refcanon(f)).is_file());
            // tools also list files they probed and did not find: such a name is a dependency all the same
            // (the step stays out of date until the file exists when it next succeeds)
            if sh.tape.chance(8) {
                let gone: Vec<&String> = proj.sources.iter().filter(|f| *f != "gen.in" && *f != "sub.in" && !std::path::Path::new(f.as_str()).exists()).collect();
                if !gone.is_empty() {
                    v.push(gone[sh.tape.below(gone.len())].clone());
                }
            }
            Some(v)
        } else {
            None
        };
        let before = sh.world.log.len();
        sh.world.record_success(&proj, &step, reported.as_deref());
        if sh.world.log.len() > before {
            sh.appended.push(before);
        }
        sh.finishes.push(FinishEv { uid: step.uid, time: now, outcome: Outcome::Success, phase: sh.phase, epoch: sh.loads });
        let output = if sh.tape.chance(30) { format!("output of {}\n", step.uid).into_bytes() } else { vec![] };
        Finish { id: run.id, outcome: Outcome::Success, output, last_lines: vec![], discovered: reported }
    }
}

/// Write the outputs of a successful (or partially executed) command; `limit` = number of outputs written.
pub fn write_outputs(sh: &mut Shared, proj: &Proj, step: &Step, read: &[(String, Vec<u8>)], limit: usize) {
    for (k, o) in step.outs.iter().enumerate() {
        if k >= limit {
            break;
        }
        let c = World::output_content(proj, step, k, read);
        if step.restat && util::read_file(o).as_deref() == Some(c.as_bytes()) {
            continue;
        }
        sh.world.clock.write(o, c.as_bytes());
    }
}

/// The n2 process is gone (killed, or it returned while commands were still running):
/// each running command independently has none, some or all of its effects.
pub fn abandon_running(sh: &mut Shared) {
    let proj = sh.loaded.clone();
    let running = std::mem::take(&mut sh.running);
    for r in running {
        let Some(step) = proj.step(r.uid).cloned() else { continue };
        if step.regen {
            continue;
        }
        match sh.tape.below(3) {
            0 => {}
            1 => write_outputs(sh, &proj, &step, &r.read, 1),
            _ => write_outputs(sh, &proj, &step, &r.read, usize::MAX),
        }
    }
}

pub struct Obs(pub Rc<RefCell<Shared>>);

fn uid_of(sh: &Shared, id: usize) -> Option<usize> {
    sh.n2steps.get(id).and_then(|s| sh.loaded.by_outs(&s.outs)).map(|s| s.uid)
}

impl Observer for Obs {
    fn loaded(&mut self, steps: &[StepInfo]) {
        let mut g = self.0.borrow_mut();
        let sh = &mut *g;
        sh.loads += 1;
        sh.phase += 1;
        sh.n2steps = steps.to_vec();
        sh.loaded = sh.world.disk.clone();
        sh.regen_since_load = false;
        let proj = sh.loaded.clone();
        sh.attr = sh.world.attributed(&proj);
        if sh.loads > 1 {
            sh.reloaded = true;
            if !sh.running.is_empty() {
                sh.v("C17", "reload-while-running", "manifest reloaded while commands were still running".into());
            }
            if sh.finishes.iter().any(|f| f.outcome != Outcome::Success) {
                sh.v("C17", "reload-after-failure", "manifest reloaded although a regeneration command failed".into());
            }
            if !sh.manifest_regenerated && !sh.finishes.iter().any(|f| f.outcome == Outcome::Success) {
                sh.v("C17", "reload-without-run", "manifest reloaded although no command ran".into());
            }
        }
        // C08 / C07: the records read back are exactly the records written so far, each applied to
        // the step that (alone) produces all of its outputs
        let reads = std::mem::take(&mut sh.dbr);
        let got: Vec<&DbRec> = reads.iter().map(|r| &r.1).collect();
        let want: Vec<&DbRec> = sh.world.dbfile.iter().chain(sh.dbw.iter()).collect();
        if got != want {
            let msg = format!("records read from the log differ from the records written: read {} records, {} were written; first difference at #{}", got.len(), want.len(), got.iter().zip(&want).position(|(a, b)| a != b).unwrap_or(got.len().min(want.len())));
            sh.v("C08", "log-readback", msg.clone());
            sh.v("C07", "log-readback", msg);
        }
        for (step, rec) in &reads {
            let mut owner: Option<usize> = None;
            let mut ok = !rec.outs.is_empty();
            for o in &rec.outs {
                match proj.producer(o) {
                    None => ok = false,
                    Some(p) => match owner {
                        None => owner = Some(p.uid),
                        Some(q) if q == p.uid => {}
                        Some(_) => ok = false,
                    },
                }
            }
            let model_owner = if ok { owner } else { None };
            let n2_owner = step.and_then(|i| steps.get(i)).and_then(|st| proj.by_outs(&st.outs)).map(|s| s.uid);
            if step.is_some() != model_owner.is_some() || (step.is_some() && n2_owner != model_owner) {
                let msg = format!("record for outputs {:?} applied to step {:?}, must be applied to {:?}", rec.outs, n2_owner, model_owner);
                sh.v("C08", "attribution", msg.clone());
                sh.v("C07", "attribution", msg);
            }
        }
        // phase 1 wants the closure of the manifest file
        sh.wanted = proj.regen_closure();
        sh.wanted1 = sh.wanted.clone();
        sh.nsteps_total = steps.len();
        // C10 slice: the loaded graph has the declared steps
        if steps.len() != proj.steps.len() {
            sh.v("C10", "step-count", format!("manifest declares {} steps, n2 loaded {}", proj.steps.len(), steps.len()));
        }
        // C08 / C07: what is loaded for a step is what the model attributes to it
        for (i, st) in steps.iter().enumerate() {
            let Some(ms) = proj.by_outs(&st.outs) else {
                sh.v("C10", "loaded-unknown-step", format!("n2 loaded step #{} with outputs {:?} not in the manifest", i, st.outs));
                continue;
            };
            let want: Vec<String> = sh.attr.get(&ms.uid).map(|r| r.deps.clone()).unwrap_or_default();
            if st.discovered != want {
                let msg = format!("step {} loaded with discovered deps {:?}, recorded for it: {:?}", ms.uid, st.discovered, want);
                sh.v("C08", "loaded-deps-differ", msg.clone());
                sh.v("C09", "loaded-deps-differ", msg.clone());
                sh.v("C07", "loaded-deps-differ", msg);
            }
        }
    }

    fn phase2(&mut self) {
        let mut g = self.0.borrow_mut();
        let sh = &mut *g;
        sh.phase += 1;
        sh.phase2_seen = true;
        let proj = &sh.loaded;
        let w2 = proj.wanted(&sh.spec.targets);
        if sh.reloaded {
            sh.wanted = w2;
        } else {
            let mut w = sh.wanted1.clone();
            w.extend(w2);
            sh.wanted = w;
        }
    }

    fn update(&mut self, c: [usize; 6]) {
        let mut g = self.0.borrow_mut();
        let sh = &mut *g;
        if c.iter().any(|&x| x > 1 << 40) {
            // a counter went below zero and wrapped
            sh.v("C19", "count-range", format!("a progress count is absurd (wrapped below zero): {:?}", c));
            let phase = sh.phase;
            sh.updates.push((phase, c));
            return;
        }
        let total: usize = c.iter().sum();
        let proj = &sh.loaded;
        let expect = sh.wanted.iter().filter(|u| proj.step(**u).map(|s| !s.phony).unwrap_or(false)).count();
        let phase = sh.phase;
        if !sh.regen_since_load && !sh.running.is_empty() {
            // a step with an ancestor executing right now cannot have left the waiting state
            let running: BTreeSet<usize> = sh.running.iter().map(|r| r.uid).collect();
            let epoch = sh.loads;
            let must_wait: Vec<usize> = sh
                .wanted
                .iter()
                .copied()
                .filter(|u| proj.step(*u).map(|s| !s.phony).unwrap_or(false))
                .filter(|u| !sh.starts.iter().any(|e| e.uid == *u && e.epoch == epoch))
                .filter(|u| proj.ancestors(*u).iter().any(|a| running.contains(a)))
                .collect();
            if c[0] < must_wait.len() {
                sh.v("C19", "waiting-count", format!("progress says {} steps are waiting for inputs, but steps {:?} all have an ancestor executing now (counts {:?})", c[0], must_wait, c));
            }
            // and everything not waiting, running or finished is at most the rest
            if c[1] + c[2] + must_wait.len() + running.len() > expect.max(total) {
                sh.v("C19", "ready-count", format!("progress says {} ready and {} queued while {} run and {:?} must wait, of {} steps", c[1], c[2], running.len(), must_wait, expect));
            }
        }
        if total != expect {
            sh.v("C19", "total", format!("progress total {} but {} non-phony steps are wanted (phase {}, counts {:?})", total, expect, phase, c));
        }
        if c[3] != sh.running.len() {
            sh.v("C19", "running", format!("progress says {} running, {} commands are executing", c[3], sh.running.len()));
        }
        if c.iter().any(|&x| x > expect.max(total) || x > 1 << 40) {
            sh.v("C19", "count-range", format!("a progress count exceeds the total: {:?}", c));
        }
        if let Some((p, prev)) = sh.updates.last() {
            if *p == phase && (c[4] < prev[4] || c[5] < prev[5]) {
                sh.v("C19", "decrease", format!("finished counts decreased: {:?} -> {:?}", prev, c));
            }
        }
        let epoch = sh.loads;
        let failed_seen = sh.finishes.iter().filter(|f| f.outcome == Outcome::Failure && f.epoch == epoch).count();
        if c[5] != failed_seen {
            sh.v("C19", "failed-count", format!("progress says {} failed, {} commands failed since the manifest was loaded", c[5], failed_seen));
        }
        let ok_seen = sh.finishes.iter().filter(|f| f.outcome == Outcome::Success && f.epoch == epoch).count();
        if c[4] < ok_seen {
            sh.v("C19", "done-count", format!("progress says {} done, but {} commands already completed successfully", c[4], ok_seen));
        }
        sh.updates.push((phase, c));
        let budget = 64 + 16 * (sh.nsteps_total + 1) * (sh.nsteps_total + 1);
        if sh.updates.len() > budget {
            drop(g);
            panic!("LIVELOCK: more than {} loop iterations", budget);
        }
    }

    fn update_total(&mut self, total: usize) {
        let mut g = self.0.borrow_mut();
        let sh = &mut *g;
        let proj = &sh.loaded;
        let expect = sh.wanted.iter().filter(|u| proj.step(**u).map(|s| !s.phony).unwrap_or(false)).count();
        if total != expect {
            let phase = sh.phase;
            sh.v("C19", "displayed-total", format!("the total n2 displays is {} but {} non-phony steps are wanted (phase {})", total, expect, phase));
        }
    }

    fn task_finished(&mut self, id: usize, outcome: Outcome, _output: &[u8]) {
        let mut g = self.0.borrow_mut();
        let sh = &mut *g;
        let uid = uid_of(sh, id);
        let ok = match (uid, sh.finishes.last()) {
            (Some(u), Some(f)) => f.uid == u && f.outcome == outcome,
            // the manifest was just rewritten by the generator step: names may no longer resolve
            (None, Some(_)) if sh.regen_since_load => true,
            _ => false,
        };
        if !ok {
            sh.v("C19", "finished-mismatch", format!("n2 reports completion of step #{} ({:?}) that does not match the command that finished", id, outcome));
        }
    }

    fn log(&mut self, msg: &str) {
        let mut g = self.0.borrow_mut();
        g.logs.push(msg.to_string());
    }

    fn db_write(&mut self, outs: &[String], deps: &[String], hash: u64) {
        let mut g = self.0.borrow_mut();
        g.dbw.push(DbRec { outs: outs.to_vec(), deps: deps.to_vec(), hash });
    }

    fn db_read(&mut self, step: Option<usize>, outs: &[String], deps: &[String], hash: u64) {
        let mut g = self.0.borrow_mut();
        g.dbr.push((step, DbRec { outs: outs.to_vec(), deps: deps.to_vec(), hash }));
    }
}
