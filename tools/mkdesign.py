#!/usr/bin/env python3
"""Fill the generated tables of DESIGN.md section 0.5 / 0.6 (between BEGIN/END markers) from
mutants/results.jsonl, seeded/*/meta.json and `n2check parts`."""
import json, subprocess, re, os
D = '/verif/DESIGN.md'
s = open(D).read()
# --- 0.5
rows = {}
if os.path.exists('/verif/mutants/results.jsonl'):
    for l in open('/verif/mutants/results.jsonl'):
        r = json.loads(l)
        rows.setdefault(r['mutant'], []).append(r)
t = ["**Hand-written mutants** (`mutants/*.diff`; `unfix-F*` = reversal of a `fix:` commit). Quick tier, scratch copy, seed 0; `tools/allmutants.sh` regenerates `mutants/results.jsonl`.", "",
     "| mutant | check | result | first violation (signature) | s |", "|---|---|---|---|---|"]
for m in sorted(rows):
    for r in rows[m]:
        first = r['first']
        key = first[first.rfind('[')+1:first.rfind(']')] if '[' in first else ''
        res = {0: 'silent', 1: 'VIOLATION', 2: 'inconclusive'}.get(r['rc'], str(r['rc']))
        t.append(f"| {m.replace('.diff','')} | {r['check']} | {res} | {key} | {r['seconds']} |")
seed = subprocess.run(['python3', '/verif/tools/seedtable.py'], capture_output=True, text=True).stdout
t += ["", "**Changes written by independent sub-agents** (each got only the text of one property and its own worktree; kept under `seeded/<id>-<n>/` with patch, demonstration and `meta.json` after I confirmed in a scratch worktree that the existing suite passes with the change and that the demonstration fails with it and passes without). `r2-` = second round (agents were told which files/functions were already used and asked for harder changes); `r3-`, `r4-` = third and fourth round (nothing but the property text and a list of areas of n2 worth considering, different per round). The columns 'report it / stay silent' are from the day a change was filed (after the strengthening it prompted, see 0.2/0.7); the last column is the own-property quick check re-run against every change with the harness as committed at the end (`tools/seedsweep.py`).", "", seed]
t += ["", "**What the four rounds showed.** 160 changes were filed (159 confirmed; C16-1 is kept as rejected because an existing test hangs with it). "
      "The own-property quick check was silent (or inconclusive) on its first run against 5 of 39 changes of round 1, 11 of 40 of round 2, 7 of 40 of round 3 and 7 of 40 of round 4; "
      "in rounds 3 and 4 a further 2 and 5 changes were only caught at the first run because the generator had been extended after reading the author's summary and before running the check "
      "(C10-r3-1, C13-r3-1; C12-r4-1, C12-r4-2, C13-r4-1, C15-r4-1, C16-r4-2). Every miss was answered by extending a generator or adding an oracle (never by special-casing the change), "
      "the check was re-run on the unchanged tree, and the change was re-run; the extensions are listed per property in 0.7. "
      "The miss rate did not fall from round to round: each round pointed at behaviour the generators did not yet reach "
      "(signal deaths seen by n2 itself, logs beyond 8 KiB, CR/tab/0x85/0xA0 bytes in depfiles, paths assembled from variables, `-f` spellings, files read twice, doubled continuations, restat summaries, concurrent spawning, ...). "
      "A fifth round would very likely find more; that is the honest reading of these numbers."]
block5 = "\n".join(t)
# --- 0.6
parts = subprocess.run(['/verif/target/release/n2check', 'parts'], capture_output=True, text=True).stdout
block6 = "| check | part | quick | thorough |\n|---|---|---|---|\n" + parts + "\nThe thorough tiers of C12, C13 and C15 additionally run a libFuzzer campaign (targets `load`, `canon`, `depfile` in `fuzz/`, 16 jobs, the same oracles inside the target)."
def put(s, name, block):
    b, e = f"<!-- BEGIN {name} -->", f"<!-- END {name} -->"
    if b in s:
        return re.sub(re.escape(b) + r".*?" + re.escape(e), lambda m: b + "\n" + block + "\n" + e, s, flags=re.S)
    ph = {"SENS": "SENSITIVITY_TABLE_PLACEHOLDER", "PARTS": "PARTS_PLACEHOLDER"}[name]
    return s.replace(ph, b + "\n" + block + "\n" + e)
s = put(s, "SENS", block5)
s = put(s, "PARTS", block6)
open(D, 'w').write(s)
print("DESIGN.md tables regenerated")
