#!/bin/sh
# fuzzrun.sh <target> <property id> <runs per job> [jobs]
# Coverage-guided campaign (libFuzzer through cargo-fuzz, debug assertions on) with the semantic oracle
# inside the target.  Adds a "fuzz" entry to evidence/<id>.json.  Exit 0 = no crash, 1 = crash found
# (VIOLATION line, the artifact is the replay file), 2 = could not run.
target="$1"; id="$2"; runs="${3:-200000}"; jobs="${4:-16}"
root="${VERIF_ROOT:-/verif}"
seed="${VERIF_SEED:-0}"; [ "$seed" = "0" ] && seed=1
work="/dev/shm/n2fuzz-$target.$$"
mkdir -p "$work/corpus" "$root/out/$id" "$root/target"
cp "$root/corpus/$target/"* "$work/corpus/" 2>/dev/null
art="$root/out/$id/fuzz-$target-"
t0=$(date +%s)
(cd "$root/harness" && cargo +nightly fuzz build --fuzz-dir "$root/fuzz" "$target" >"$root/target/.fuzzbuild.log" 2>&1) || { tail -20 "$root/target/.fuzzbuild.log" >&2; echo "fuzzrun: build failed: inconclusive" >&2; rm -rf "$work"; exit 2; }
bin="$root/target/x86_64-unknown-linux-gnu/release/$target"
[ -x "$bin" ] || { echo "fuzzrun: $bin missing" >&2; rm -rf "$work"; exit 2; }
(cd "$work" && "$bin" "$work/corpus" -runs="$runs" -seed="$seed" -jobs="$jobs" -workers="$jobs" -max_len=2048 -len_control=0 -timeout=20 -rss_limit_mb=4096 -artifact_prefix="$art" >"$work/fuzz.out" 2>&1)
rc=$?
execs=$(cat "$work"/fuzz-*.log 2>/dev/null | grep -o 'stat::number_of_executed_units: [0-9]*' | awk '{s+=$2} END {print s+0}')
[ "$execs" = "0" ] && execs=$(cat "$work"/fuzz-*.log 2>/dev/null | grep -c 'DONE')
done_jobs=$(cat "$work"/fuzz-*.log 2>/dev/null | grep -c '^Done [0-9]* runs')
cov=$(cat "$work"/fuzz-*.log 2>/dev/null | grep -o 'cov: [0-9]*' | awk '{if ($2>m) m=$2} END {print m+0}')
corpus=$(ls "$work/corpus" | wc -l)
# only crash-* artifacts are failures of the oracle; timeout-/oom-/slow-unit- artifacts are resource limits (never a violation)
limited=$(ls "$art"timeout-* "$art"oom-* "$art"slow-unit-* 2>/dev/null | wc -l)
rm -f "$art"timeout-* "$art"oom-* "$art"slow-unit-* 2>/dev/null
crashes=$(ls "$art"crash-* 2>/dev/null | wc -l)
t1=$(date +%s)
python3 - "$root/evidence/$id.json" "$target" "$runs" "$jobs" "$done_jobs" "$cov" "$corpus" "$crashes" "$((t1-t0))" "$seed" "$limited" <<'PY'
import json, sys
p, target, runs, jobs, done, cov, corpus, crashes, secs, seed, limited = sys.argv[1:]
try:
    e = json.load(open(p))
except Exception:
    sys.exit(0)
f = e['coverage'].setdefault('fuzz', [])
f.append({"engine": "libFuzzer (cargo-fuzz, debug assertions on)", "target": target, "runs_per_job": int(runs), "jobs": int(jobs), "jobs_completed": int(done), "executions": int(done) * int(runs), "edges_covered": int(cov), "corpus_files_after": int(corpus), "crash_artifacts": int(crashes), "resource_limited_inputs_discarded": int(limited), "seed": int(seed), "wall_s": int(secs)})
e['coverage']['evaluations'] = e['coverage'].get('evaluations', 0) + int(done) * int(runs)
json.dump(e, open(p, 'w'), indent=1)
PY
rm -rf "$work"
if [ "$crashes" -gt 0 ]; then
  for a in "$art"crash-*; do echo "VIOLATION property=$id replay=$a"; done
  exit 1
fi
echo "fuzz $target: $done_jobs jobs x $runs runs, $cov edges, no crash" >&2
exit 0
