#!/usr/bin/env python3
"""seedrescan.py <seeded dir name> <checks,comma>: re-run quick checks against a filed seeded change and update meta.json."""
import sys, json, subprocess, re, os
d, checks = sys.argv[1], sys.argv[2]
out = f'/verif/seeded/{d}'
meta = json.load(open(f'{out}/meta.json'))
r = subprocess.run(['python3', '/verif/tools/mutrun.py', '--scratch', '/root/scratch/mutseed' + os.environ.get('SV_LANE', ''), f'{out}/patch.diff:{checks}'], capture_output=True, text=True, errors='replace')
det = meta.get('detected_by', {})
for line in r.stdout.splitlines():
    m = re.search(r' (C\d\d) rc=(\d+) viol=(\d+) (\d+)s ?(.*)', line)
    if m: det[m.group(1)] = {'rc': int(m.group(2)), 'violations': int(m.group(3)), 'seconds': int(m.group(4)), 'first': m.group(5)}
meta['detected_by'] = det
meta.setdefault('what_ran', []).append('re-run of quick checks against the change: ' + json.dumps({k: v['rc'] for k, v in det.items()}))
json.dump(meta, open(f'{out}/meta.json', 'w'), indent=1)
print(d, {k: (v['rc'], v['first'][:120]) for k, v in det.items()})
