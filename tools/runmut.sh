#!/bin/sh
# runmut.sh <diff> <check ids...>: apply a patch to /repo, run the quick checks, undo the patch.
d="$1"; shift
git -C /repo apply "$d" || exit 3
trap 'git -C /repo checkout -- . ; git -C /repo clean -fdq src tests 2>/dev/null' EXIT
cd /verif
for id in "$@"; do
  out=$(./check $id quick 2>&1); rc=$?
  echo "$(basename $d) $id rc=$rc $(echo "$out" | grep -c '^VIOLATION') violations; $(echo "$out" | grep -m1 'violated:' | cut -c1-220)"
done
