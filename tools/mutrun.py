#!/usr/bin/env python3
"""mutrun.py [--scratch DIR] <diff>:<ids,comma> ...   Run quick checks against mutated scratch copies of /repo.
Never touches /repo or /verif/target; results are printed as a table."""
import sys, subprocess, os, shutil, time
args = sys.argv[1:]
scratch = '/root/scratch/mut'
if args and args[0] == '--scratch':
    scratch = args[1]; args = args[2:]
os.makedirs(scratch, exist_ok=True)
def sh(cmd, **kw):
    return subprocess.run(cmd, shell=True, capture_output=True, text=True, errors='replace', **kw)
def sync():
    sh(f"rsync -a --delete --exclude target --exclude .git /repo/ {scratch}/repo/")
    sh(f"rsync -a --delete --exclude target /verif/harness/ {scratch}/harness/")
    sh(f"rsync -a --delete /verif/regress/ {scratch}/root/regress/ ; mkdir -p {scratch}/root; cp /verif/known_findings.txt {scratch}/root/ 2>/dev/null")
    p = f"{scratch}/harness/Cargo.toml"
    s = open(p).read().replace('path = "/repo"', f'path = "{scratch}/repo"')
    open(p, 'w').write(s)
    os.makedirs(f"{scratch}/harness/.cargo", exist_ok=True)
    open(f"{scratch}/harness/.cargo/config.toml", 'w').write(f'[net]\noffline = true\n[build]\ntarget-dir = "{scratch}/target"\n')
sync()
env = dict(os.environ, VERIF_ROOT=f"{scratch}/root", CARGO_NET_OFFLINE="true")
for a in args:
    diff, ids = a.split(':')
    diff = os.path.abspath(diff)
    name = os.path.basename(diff)
    r = sh(f"cd {scratch}/repo && patch -p1 --no-backup-if-mismatch < {diff}")
    if r.returncode != 0:
        print(f"{name}: PATCH FAILED {r.stdout[-200:]}"); sync(); continue
    b = sh(f"cd {scratch}/harness && cargo build --release --offline 2>&1 | tail -5", env=env)
    # the real binary (hooks off) for the black-box parts, built from the mutated copy
    sh(f"cargo build --offline --manifest-path {scratch}/repo/Cargo.toml --no-default-features --target-dir {scratch}/root/target/n2bin 2>&1 | tail -3", env=env)
    if 'Finished' not in b.stdout:
        print(f"{name}: BUILD FAILED {b.stdout[-300:]}")
    else:
        for id in ids.split(','):
            t0 = time.time()
            r = subprocess.run([f"{scratch}/target/release/n2check", "run", id, "quick"], capture_output=True, text=True, errors='replace', env=env)
            nv = r.stdout.count('VIOLATION')
            first = next((l for l in r.stderr.splitlines() if l.startswith('violated:')), '')[:200]
            print(f"{name:34s} {id} rc={r.returncode} viol={nv} {time.time()-t0:.0f}s {first}", flush=True)
            if os.environ.get('MUTRUN_JSON'):
                import json
                with open(os.environ['MUTRUN_JSON'], 'a') as jf:
                    jf.write(json.dumps({"mutant": name, "check": id, "rc": r.returncode, "violations": nv, "seconds": round(time.time()-t0), "first": first}) + "\n")
    sh(f"cd {scratch}/repo && patch -R -p1 --no-backup-if-mismatch < {diff}")
