#!/usr/bin/env python3
"""Regenerate regress/<id>/F*.json: for every fix reversal (mutants/unfix-F*.diff) run the named check's quick tier in a
scratch copy, keep the smallest replay file it produced, and confirm that it passes on the unchanged tree."""
import subprocess, os, glob, shutil, json, sys
PAIRS = {"F1": "C12", "F3": "C12", "F4": "C12", "F5": "C20", "F6": "C07", "F11": "C09", "F12": "C14", "F13": "C09", "F14": "C15", "F15": "C08", "F16": "C12", "F17": "C12", "F18": "C06"}
scratch = '/root/scratch/mutreg'
only = sys.argv[1:]
for f, chk in PAIRS.items():
    if only and f not in only: continue
    shutil.rmtree(f'{scratch}/root/out', ignore_errors=True)
    r = subprocess.run(['python3', '/verif/tools/mutrun.py', '--scratch', scratch, f'/verif/mutants/unfix-{f}.diff:{chk}'], capture_output=True, text=True, errors='replace')
    files = sorted(glob.glob(f'{scratch}/root/out/{chk}/*.json'), key=os.path.getsize)
    if not files:
        print(f, chk, 'NO REPLAY', r.stdout[-200:]); continue
    os.makedirs(f'/verif/regress/{chk}', exist_ok=True)
    for old in glob.glob(f'/verif/regress/{chk}/{f}-*.json'): os.remove(old)
    d = json.load(open(files[0]))
    if d.get('key') in ('process-death', 'regress'):
        alt = [x for x in files if json.load(open(x)).get('key') not in ('process-death', 'regress')]
        if alt: d = json.load(open(alt[0]))
    name = f"/verif/regress/{chk}/{f}-{d.get('key','case').replace('/','_').replace(':','_')[:40]}.json"
    json.dump(d, open(name, 'w'), indent=1)
    ok = subprocess.run(['/verif/check', 'replay', chk, name], capture_output=True, text=True, errors='replace')
    print(f, chk, os.path.basename(name), 'passes on the unchanged tree' if ok.returncode == 0 else f'FAILS on the unchanged tree rc={ok.returncode}: {ok.stdout[-300:]}')
