#!/usr/bin/env python3
"""Regenerate /verif/MANIFEST.json from the table below (kept valid at all times)."""
import json, subprocess
CLAIMED = {
 # id: (engine, level, technique, level text, level note, design ref)
 "C01": ("sim", "exploration", "stateful property-based testing (proptest tapes) of build histories with a scripted executor; trace-validity oracle", "Random projects x histories x schedules x failure plans; at every command start the harness checks that no transitive producer is running, failed, or out of date and unrun, and that no step starts twice per manifest load.", "Command execution is diverted by the cfg-gated hook in task::Runner; everything else (loader, .n2_db, stat, BuildStates, pools) is upstream code on a real tmpfs directory.", "5/C01"),
 "C02": ("sim", "exploration", "model-based PBT: clean-build content oracle + independent reference model of the manifest rule", "Histories of edits and invocations; after every successful invocation outputs must equal clean-build contents and every unrun wanted step must be up to date by the reference model.", "Assumptions of the property (mtime changes with content, no concurrent writers, no phony dirtying inputs) are built into the generator; logical clock.", "5/C02"),
 "C03": ("sim", "exploration", "model-based PBT: every started command must be dirty by the reference model; no-op rebuild and restat metamorphic checks", "As C02 in the other direction: ran subset-of dirty, repeat build is a no-op with `no work to do`, restat adopts.", "Reference model of section 4.4; logical clock.", "5/C03"),
 "C04": ("sim", "exploration", "PBT over schedules with invariant at every start (running-set limits) plus retrospective work-conservation", "-j and pool depths checked at every start over random schedules and failure plans; unknown-pool diagnostic predicate.", "Scripted executor owns the schedule; the one duplicated bookkeeping line of the hook (running += 1) is covered by the black-box slice when built.", "5/C04"),
 "C05": ("sim", "exploration", "fault-injection PBT (random failing subsets, -k budgets) with trace predicates and exit-status oracle", "Containment, budget, no record on failure, exit status, over random failure subsets and schedules.", "-k >= 1; -k absent treated as unlimited as the code does.", "5/C05"),
 "C06": ("sim", "exploration", "PBT over graphs and schedules: no panic/deadlock/iteration-budget overrun, work conservation, cycle diagnostics", "Termination surrogates and decision-for-every-wanted-step over random acyclic and cyclic graphs.", "Liveness is decided by deterministic surrogates (blocking wait with nothing running; iteration budget).", "5/C06"),
 "C08": ("sim", "exploration", "PBT over manifest-edit sequences; write/read-back differential on the log through observation hooks; reference attribution rule", "Records read back at every load equal records written; each applied exactly to the step that alone produces all its outputs; neutral edits cause no re-runs.", "Observation callbacks in db.rs (cfg-gated).", "5/C08"),
 "C09": ("sim", "exploration", "model-based PBT over histories of changing reported dependency sets", "Wholesale replacement, persistence across loads, missing deps make dirty but never fail, compared against the reference model at every load and start.", "Include sets change only with a change of something the command reads.", "5/C09"),
 "C17": ("sim", "exploration", "stateful PBT with a scripted generator step that rewrites the manifest", "Per-epoch trace predicates against old/new manifest and the reference model; generator failure stops everything.", "Scripted generator effect; -f variants.", "5/C17"),
 "C18": ("sim", "exploration", "PBT over target subsets/spellings/-f/-C/builddir with closure oracle", "started subset-of closure; dirty closure fully started on success; unknown names rejected; log location.", "Names surviving only in the log are excluded (listed finding F10).", "5/C18"),
 "C19": ("sim", "exploration", "PBT with an observer on the Progress interface; count invariants at every update", "Sum of counts, running count, failed count, monotonicity at every update; summary line.", "Observer installed through the cfg-gated progress override.", "5/C19"),
}
TITLES = {}
for l in open('/verif/properties.jsonl'):
    d = json.loads(l); TITLES[d['id']] = d['title']
PENDING = "check under construction in this session (engine not yet committed); will be claimed when its evidence is reproducible"
checks = []
for id in sorted(TITLES):
    if id not in CLAIMED: continue
    eng, level, tech, text, note, ref = CLAIMED[id]
    checks.append({"property_id": id, "quick_cmd": f"./check {id} quick", "thorough_cmd": f"./check {id} thorough", "evidence_file": f"evidence/{id}.json", "replay_cmd_template": f"./check replay {id} {{path}}", "engine": eng, "level_claimed": {"category": level, "text": text, "design_ref": ref}, "level_note": note, "technique": tech})
commits = subprocess.run("git -C /repo log --format=%H --grep='^verif:'", shell=True, capture_output=True, text=True).stdout.split()
m = {
 "version": 1,
 "setup_cmd": "./check setup",
 "hooks": {"guard": "cargo feature `verif` (off by default)", "enable": "harness/Cargo.toml depends on /repo with features=[\"verif\"], default-features=false", "baseline_off_cmd": "cd /repo && cargo test --workspace --no-fail-fast --offline", "source_commits": commits, "add_only": True},
 "engines": [
  {"name": "sim", "path": "harness/src/sim", "serves_properties": [c for c in sorted(CLAIMED) if CLAIMED[c][0]=="sim"], "kind_free_text": "in-process n2 on tmpfs with scripted command execution; proptest-generated choice tapes decoded into projects, edit/build histories, schedules and fault plans; reference model of the manifest rule"},
 ],
 "checks": checks,
 "not_applicable": [{"property_id": id, "reason": PENDING} for id in sorted(TITLES) if id not in CLAIMED],
 "notes": "All checks: exit 0 = held on everything explored, 1 = VIOLATION line with replay file under out/<id>/, 2 = inconclusive (build failure, watchdog, worker infrastructure). VERIF_SEED selects the proptest seed. Known findings: known_findings.txt.",
}
json.dump(m, open('/verif/MANIFEST.json', 'w'), indent=1)
print("claimed", len(checks), "n/a", len(m["not_applicable"]))
