#!/bin/sh
# Run every hand-written sensitivity mutant (mutants/*.diff) against the quick tier of the checks that should
# catch it, in a scratch copy; results go to mutants/results.jsonl (one line per mutant x check).
cd /verif
rm -f mutants/results.jsonl
export MUTRUN_JSON=/verif/mutants/results.jsonl
M=/verif/mutants
python3 tools/mutrun.py --scratch /root/scratch/mutall \
 $M/m01a-recheck-dirtying.diff:C01,C02 $M/m01c-promote-nonwant.diff:C01,C19 $M/m02a-hash-no-discovered.diff:C02,C09 $M/m02b-hash-no-outs.diff:C02 \
 $M/m02c-partial-record.diff:C08 $M/m02d-failed-is-done.diff:C02,C05 $M/m03a-hash-order-only.diff:C03 $M/m03b-hash-location.diff:C03,C08 \
 $M/m04a-pool-le.diff:C04 $M/m04b-j-le.diff:C04 $M/m04c-no-decrement-on-fail.diff:C04,C06 $M/m05a-success-ignores-failures.diff:C05 \
 $M/m05c-budget-off-by-one.diff:C05 $M/m06a-no-progress-flag.diff:C06 $M/m06b-validation-shares-stack.diff:C06 $M/m08a-earliest-wins.diff:C08,C03 \
 $M/m09a-no-declared-filter.diff:C09 $M/m09b-missing-dep-errors.diff:C09 $M/m09c-append-deps.diff:C09 $M/m17a-skip-reload.diff:C17 \
 $M/m17b-ignore-regen-failure.diff:C17 $M/m18a-default-ignored.diff:C18 $M/m18b-closure-skips-validation.diff:C18 $M/m18c-unknown-target-skipped.diff:C18 \
 $M/m19a-count-phony.diff:C19 $M/m19b-count-failures.diff:C19 \
 $M/unfix-F1.diff:C12 $M/unfix-F3.diff:C12 $M/unfix-F4.diff:C12 $M/unfix-F5.diff:C20 $M/unfix-F6.diff:C07 $M/unfix-F11.diff:C09 $M/unfix-F12.diff:C14 \
 $M/unfix-F13.diff:C09 $M/unfix-F14.diff:C15 $M/unfix-F15.diff:C08 $M/unfix-F16.diff:C12 $M/unfix-F17.diff:C12 $M/unfix-F18.diff:C06 \
 $M/m27-counts-shadowed-build-saturating.diff:C19 $M/m28-waiting-counted-as-ready.diff:C19 "$@"
