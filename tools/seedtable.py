#!/usr/bin/env python3
"""Fill in the short descriptions of the seeded changes (seeded/*/meta.json) and print the markdown table for DESIGN.md."""
import json, glob, os
NEEDS = {
 "C01-1": ("ready_dependents collects dependents in a Vec: a consumer of two outputs of one producer is readied (and started) twice", "multi-output producer + a step consuming two of its outputs"),
 "C01-2": ("recheck_ready treats a Failed producer as finished", "-k >= 2, a step with two generated inputs from different producers, the failure before the sibling succeeds"),
 "C02-1": ("output mtimes dropped from the build hash", "an output overwritten/truncated without going missing while inputs keep their recorded mtimes"),
 "C02-2": ("recheck_ready scans dirtying instead of ordering inputs", "generated order-only input reported by the depfile + generated dirtying input, particular completion order"),
 "C03-1": ("empty discovered-deps list in a log record is not applied on load", "a step that once reported deps re-runs and reports none; visible only after a reload (3 invocations)"),
 "C03-2": ("discovered inputs sorted by FileId before hashing", ">= 2 discovered deps + an unrelated manifest edit that renumbers files"),
 "C04-1": ("pool slot released on entering Done/Failed instead of on leaving Running", "an up-to-date step of a full pool becoming ready (order-only dep on a step that reruns)"),
 "C04-2": ("batch pop_queued does not subtract what it took from earlier pools", ">= 2 pools with queued work at one scheduling instant exceeding the free -j slots"),
 "C05-1": ("pool slot leaked when a command fails", "named/console pool, a failure inside it, keep-going with budget left, other steps of that pool pending"),
 "C05-2": ("queues cleared instead of returning when the -k budget is reached", "-k N, -j >= 2, N-th failure while another command runs which then succeeds with a dirty dependent"),
 "C06-1": ("failure propagation follows validation edges", "a validation target failing while the validating step still waits for a real input"),
 "C06-2": ("pending count moved into want_build (re-entrant through validation edges)", "a validation-closed cycle where the |@ edge hangs below the re-entered target"),
 "C07-1": ("EOF inside the 2-byte record header counts the stray byte as valid", "a crash leaving exactly 1 byte of the next record; damage shows two invocations later"),
 "C07-2": ("fresh signature written only if the file was empty before truncation", "first-ever run dying inside the 8-byte signature (1-7 bytes persisted)"),
 "C08-1": ("discovered deps kept sorted by FileId (also when loaded)", ">= 2 discovered headers + a manifest edit that mentions one of them"),
 "C08-2": ("flattened ownership check lets a record with orphaned leading outputs be claimed", "output set {a,b} built, then a removed and b produced by another step"),
 "C09-1": ("a reported dependency that does not exist at report time is dropped", "a depfile naming an absent file, then a later invocation after it appears"),
 "C09-2": ("a loaded record with an empty dep list skips set_discovered_ins", "non-empty report, then an empty report, then a fresh process"),
 "C10-1": ("skip_spaces without $-newline handling inside path lists", "a continuation directly before |, ||, |@ or :"),
 "C10-2": ("identifier classes use is_alphanumeric on bytes", "a bare $name directly followed by a non-ASCII character"),
 "C11-1": ("build-block step attributes see sibling bindings", "a build block overriding command/description whose value references a sibling"),
 "C11-2": ("empty bindings in build/rule blocks are dropped", "an inner empty binding shadowing a non-empty file-level one"),
 "C12-1": ("depfile read_path: a backslash swallows the next character, even the terminating NUL", "a depfile ending in a backslash inside a path token without final newline"),
 "C12-2": ("caret column counted in characters of a str built from raw bytes", "a syntax error on a stray UTF-8 continuation byte"),
 "C13-1": ("early exit of canonicalize_path misses mixed separator pairs /\\ and \\/", "two adjacent separators of different kinds and nothing else non-canonical"),
 "C13-2": ("canonicalisation moved into read_depfile, /showIncludes route forgotten", "deps = msvc + a non-canonical include path of a file known under its canonical name"),
 "C14-1": ("Loader::path pre-check skips canonicalisation unless it sees ./ or //", "a redundant component in last position (dir/. or dir/x/..)"),
 "C14-2": ("in-place remove_duplicates skips the element that slides into the removed slot", "one output listed >= 3 times or two adjacent duplicates"),
 "C15-1": ("a repeated depfile target is merged only with the previous entry", "a target re-appearing after a different target"),
 "C15-2": ("skip_spaces consumes only one continuation per call", "an empty continuation line inside a prerequisite list"),
 "C16-1": ("capture pipe created without close-on-exec", "overlapping commands; REJECTED: the existing test build_starts_before_validation_finishes hangs with it"),
 "C16-2": ("created output directories cached for the whole invocation", "a directory created for one step, removed by a later command, needed again by a third step"),
 "C17-1": ("manifest reloaded only if the manifest step itself ran", "an included file regenerated by its own generator while the main manifest step is up to date"),
 "C17-2": ("default targets taken from before the regeneration", "default statement + no targets + a regeneration that changes file numbering"),
 "C18-1": ("command-line names resolved before the manifest reload", "a regeneration that reorders or drops the requested name"),
 "C18-2": ("build-everything walk starts only from files nothing consumes (validation counts as consuming)", "no targets, no default, a cycle through a validation edge"),
 "C19-1": ("phase-1 task count added twice when the manifest is not reloaded", "phase 1 runs a command without running the manifest step"),
 "C19-2": ("StateCounts::total() omits the Failed slot", "a failure while other steps are pending (only the displayed total is wrong)"),
 "C20-1": ("truncate() steps back at most 2 bytes to a character boundary", "a cut landing on the last byte of a 4-byte character"),
 "C20-2": ("progress bar one-tick rule without the bar-size guard", "the running group bumped to the full width while steps are still wanted"),
 "C01-r2-1": ("order-only inputs de-duplicated with swap_remove (pulls a validation input into the order-only section)", "a duplicated order-only input + a |@ input on the same build, the displaced producer finishing last, -j >= 2"),
 "C01-r2-2": ("phony inputs promoted to order-only with the implicit count dropped", "a phony step with an implicit input whose producer is slow, a command step reaching it only through the phony"),
 "C02-r2-1": ("rspfile written without truncation", "an rspfile left by an earlier build whose new content is shorter"),
 "C02-r2-2": ("stat() no longer follows symlinks", "an input or discovered dep that is a symlink whose target is edited"),
 "C03-r2-1": ("record dropped when a validation input does not exist yet at completion", "a |@ edge whose target finishes after the step, then another invocation"),
 "C03-r2-2": ("discovered deps replaced only when the run reported some", "depfile binding removed, later re-run reports nothing, old deps keep triggering (4 invocations)"),
 "C04-r2-1": ("pool table of the first load reused after the manifest is regenerated", "regeneration that changes a pool declaration + more ready pooled steps than the new depth"),
 "C04-r2-2": ("a rule's pool binding memoised per rule", "rule-level `pool = $var` resolved differently by builds of the same rule"),
 "C05-r2-1": ("wait status decoded by hand: death by a signal other than SIGINT counts as success", "the /bin/sh n2 waits on dying from SEGV/KILL/TERM"),
 "C05-r2-2": ("recheck_ready skips inputs produced by phony steps", "order-only input through a phony group with a failing member + another generated input finishing meanwhile"),
 "C06-r2-1": ("paths that expand to nothing are filtered out but the section counts are kept", "an empty expansion in front of a |@ section (or as last input)"),
 "C06-r2-2": ("dependents lists of files without producer are freed at the end of every included file", "include + a consumer declared before a producer that follows the include + completion order"),
 "C07-r2-1": ("obsolete records skipped with a relative seek (past EOF succeeds)", "a crash tearing a build record + a manifest edit making that record obsolete before the next run"),
 "C07-r2-2": ("torn tail truncated lazily at the first build record, after its path records were appended", "a tear inside a path record and a next run that needs a new path record"),
 "C08-r2-1": ("only explicit outputs are hashed", "an implicit output gained or moved in across a manifest edit while the file exists"),
 "C08-r2-2": ("implicit inputs sorted by FileId at load", ">= 2 implicit inputs + an edit elsewhere that flips their first mention"),
 "C09-r2-1": ("stat() of a symlink also stats the target with `?`", "a recorded header that is a symlink whose target is removed"),
 "C09-r2-2": ("`deps = msvc` ignored for filtering when a depfile is also set", "a rule with both deps = msvc and depfile"),
 "C10-r2-1": ("evaluate() returns \"\" when a cheaper length hint is 0", "a value made only of references to build-level bindings that are only references"),
 "C10-r2-2": ("a build-level binding expanding to \"\" is treated as unset", "a build statement overriding a rule attribute with an empty value"),
 "C11-r2-1": ("$in/$out fall through to user variables when the list is empty", "a user variable named in/out + a rule using $in + a build without explicit inputs"),
 "C11-r2-2": ("re-binding a file-level variable to empty is dropped", "non-empty binding, later empty re-binding, later use"),
 "C12-r2-1": ("an interior NUL inside a value is accepted", "a NUL in a command value of a step that really runs (worker thread panics, n2 hangs)"),
 "C12-r2-2": ("unknown-target diagnostic abbreviated with a byte slice", "an unknown target longer than 64 bytes with a multi-byte character at byte 64"),
 "C13-r2-1": ("canonicalisation skipped when no single part of a path needs it", "a path built from parts that meet separator to separator ($d/gen with d = out/)"),
 "C13-r2-2": ("command-line targets canonicalised only when a pattern list matches", "a target with two adjacent separators of different kinds"),
 "C14-r2-1": ("canonicalize_path remembers only one parent component", "a duplicate spelled with two back-to-back `..`"),
 "C14-r2-2": ("add_build validates only explicit outputs", "a file produced elsewhere reappearing as an implicit output of a later statement"),
 "C15-r2-1": ("read_depfile stops at the first target without prerequisites", ">= 2 targets, an empty one before a non-empty one"),
 "C15-r2-2": ("format_parse_error searches the buffer without the NUL", "a stray backslash as the very last byte of a depfile"),
 "C16-r2-1": ("rspfile opened without truncation", "a step with an rspfile re-running with shorter content"),
 "C16-r2-2": ("failing hide_success steps lose their output", "a failing command under a rule with hide_success"),
 "C17-r2-1": ("an empty discovered-deps list in a record is not applied on load", "a manifest generator with a depfile whose report becomes empty"),
 "C17-r2-2": ("the manifest is no longer interned first (its FileId is reused across the reload)", "a regeneration that shifts file numbering"),
 "C18-r2-1": ("want_build also visits discovered deps", "a recorded dep on a generated file without manifest path + a sub-target excluding its producer"),
 "C18-r2-2": ("defaults naming non-outputs are dropped", "every `default` names a source file, no targets given"),
 "C19-r2-1": ("reload only if build.ninja's mtime changed; phase-1 count added twice otherwise", "a write-if-changed generator that runs but leaves the manifest untouched"),
 "C19-r2-2": ("ready_dependents passes the finished step instead of the dependent to set()", "a multi-output step with a phony dependent that it readies last"),
 "C20-r2-1": ("progress bar tick rule without the bar-size clamp", "done group floors to full-1, tiny running group, non-zero want group"),
 "C20-r2-2": ("last output line cut on raw bytes before decoding", "a running task on a tty whose last line is longer than the terminal with a multi-byte character at the cut"),
}
rows = []
for d in sorted(glob.glob('/verif/seeded/*/meta.json')):
    name = os.path.basename(os.path.dirname(d))
    m = json.load(open(d))
    if name in NEEDS:
        m['what_it_changes'], m['needs_to_manifest'] = NEEDS[name]
        json.dump(m, open(d, 'w'), indent=1)
    det = m.get('detected_by', {})
    own = name.split('-')[0]
    caught = [k for k, v in det.items() if v['rc'] == 1]
    missed = [k for k, v in det.items() if v['rc'] != 1]
    first = det.get(own, {}).get('first', '')
    key = first[first.rfind('[')+1:first.rfind(']')] if '[' in first else ''
    esc = lambda x: x.replace('|', '\\|')
    rows.append(f"| {name} | {esc(m.get('what_it_changes',''))} | {esc(m.get('needs_to_manifest',''))} | {'yes' if m.get('confirmed') else 'no'} | {', '.join(caught) or '-'}{(' (' + key + ')') if key and own in caught else ''} | {', '.join(missed) or '-'} |")
print("| seeded change | what it changes | needs | confirmed | quick checks that report it | quick checks run that stay silent |")
print("|---|---|---|---|---|---|")
print("\n".join(rows))
