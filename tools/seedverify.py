#!/usr/bin/env python3
"""seedverify.py <ID> <n> [checks,comma]  -- confirm a sub-agent's seeded change in a scratch worktree, run our
quick checks against it (in scratch copies, never /repo), and file it under /verif/seeded/<ID>-<n>/."""
import sys, os, subprocess, json, shutil, re, time
id, n = sys.argv[1], sys.argv[2]
checks = sys.argv[3].split(',') if len(sys.argv) > 3 else [id]
ROOT = os.environ.get('WT_ROOT', '/tmp/wt')
TAG = os.environ.get('SEED_TAG', '')
src = f'{ROOT}/{id}/SEEDED'
diff = f'{src}/change{n}.diff'
demos = [f for f in os.listdir(src) if f.startswith(f'demo{n}')]
assert demos, 'no demo'
LANE = os.environ.get('SV_LANE', '')
wt = f'/tmp/sv{LANE}/wt'
def sh(cmd, **kw):
    return subprocess.run(cmd, shell=True, capture_output=True, text=True, errors='replace', **kw)
os.makedirs(f'/tmp/sv{LANE}/tmp', exist_ok=True)
if not os.path.isdir(wt):
    r = sh(f'git -C /repo worktree add -q --detach {wt} HEAD'); assert r.returncode == 0, r.stderr
sh(f'git -C {wt} checkout -q --detach $(git -C /repo rev-parse HEAD) && git -C {wt} checkout -q -- . && git -C {wt} clean -fdq -e target')
out = f'/verif/seeded/{id}-{TAG}{n}'
os.makedirs(out, exist_ok=True)
shutil.copy(diff, f'{out}/patch.diff')
demo_files = []
for d in demos:
    text = open(f'{src}/{d}').read().replace(f'{ROOT}/{id}/target', '${TMPDIR:-/tmp}').replace(f'{ROOT}/{id}', '${N2_WORKTREE:-/tmp/sv/wt}')
    open(f'{out}/{d}', 'w').write(text); os.chmod(f'{out}/{d}', 0o755); demo_files.append(d)
for f in os.listdir(src):
    if not f.startswith(('change', 'demo', 'notes')) and os.path.isfile(f'{src}/{f}'):
        shutil.copy(f'{src}/{f}', f'{out}/{f}')   # helpers the demos import
notes = open(f'{src}/notes.md').read() if os.path.exists(f'{src}/notes.md') else ''
ran = []
def build():
    r = sh(f'cd {wt} && cargo build --offline 2>&1 | tail -3'); return 'Finished' in r.stdout, r.stdout
def run_demo():
    d = demo_files[0]
    env = dict(os.environ, TMPDIR=f'/tmp/sv{LANE}/tmp', N2_WORKTREE=wt)
    if d.endswith('.sh'):
        r = subprocess.run(['sh', f'{out}/{d}', f'{wt}/target/debug/n2'], capture_output=True, env=env, cwd=f'/tmp/sv{LANE}/tmp', timeout=600)
        return r.returncode, (r.stdout + r.stderr).decode('utf-8', 'replace')[-600:]
    if d.endswith('.py'):
        r = subprocess.run(['python3', f'{out}/{d}', f'{wt}/target/debug/n2'], capture_output=True, env=env, cwd=f'/tmp/sv{LANE}/tmp', timeout=900)
        return r.returncode, (r.stdout + r.stderr).decode('utf-8', 'replace')[-600:]
    if d.endswith('.rs'):
        # a test file for tests/: copy it in, run it, remove it
        shutil.copy(f'{out}/{d}', f'{wt}/tests/{d}')
        r = sh(f'cd {wt} && cargo test --offline --test {d[:-3]} 2>&1 | tail -15', env=env)
        os.remove(f'{wt}/tests/{d}')
        ok = 'test result: ok' in r.stdout
        return (0 if ok else 1), r.stdout[-600:]
    if d.endswith('.diff'):
        # a unit test added to the tree: apply it, run the tests it names, take it out again
        names = re.findall(r'^\+\s*fn (seeded_\w+)', open(f'{out}/{d}').read(), re.M)
        a = sh(f'cd {wt} && git apply {out}/{d}')
        if a.returncode != 0: return 99, 'demo diff does not apply: ' + a.stderr[-200:]
        r = sh(f'cd {wt} && cargo test --offline {" ".join(names[:1])} 2>&1 | tail -25', env=env)
        sh(f'cd {wt} && git apply -R {out}/{d}')
        ok = 'FAILED' not in r.stdout and re.search(r'test result: ok. [1-9]', r.stdout)
        return (0 if ok else 1), r.stdout[-600:]
    return 99, 'unknown demo kind'
ok, log = build(); assert ok, log
rc0, o0 = run_demo(); ran.append(f'demo on unchanged tree: rc={rc0}')
r = sh(f'cd {wt} && git apply {out}/patch.diff'); 
applied = r.returncode == 0
if not applied:
    r = sh(f'cd {wt} && git apply -3 {out}/patch.diff'); applied = r.returncode == 0
ran.append(f'git apply: {"ok" if applied else "FAILED " + r.stderr[-200:]}')
suite_ok = False; rc1 = None; o1 = ''
if applied:
    t = sh(f'cd {wt} && cargo test --workspace --no-fail-fast --offline 2>&1 | grep -E "^test result|FAILED|^error"')
    suite_ok = t.stdout.count('test result: ok') == 4 and 'FAILED' not in t.stdout
    ran.append('existing suite with the change: ' + ('all pass' if suite_ok else t.stdout[-300:]))
    ok, log = build()
    rc1, o1 = run_demo() if ok else (98, log)
    ran.append(f'demo with the change: rc={rc1}')
    sh(f'cd {wt} && git diff > {out}/patch.diff')   # re-export against current HEAD (fix commits may have shifted lines)
sh(f'cd {wt} && git checkout -q -- . && git clean -fdq -e target')
confirmed = applied and suite_ok and rc0 == 0 and rc1 not in (0, None, 98, 99)
# our checks against the change
det = {}
if confirmed:
    r = subprocess.run(['python3', '/verif/tools/mutrun.py', '--scratch', f'/root/scratch/mutseed{LANE}', f'{out}/patch.diff:{",".join(checks)}'], capture_output=True, text=True, errors='replace')
    if not r.stdout.strip() or 'FAILED' in r.stdout:
        ran.append('mutrun output: ' + (r.stdout + r.stderr)[-400:])
    for line in r.stdout.splitlines():
        m = re.search(r' (C\d\d) rc=(\d+) viol=(\d+) (\d+)s ?(.*)', line)
        if m: det[m.group(1)] = {'rc': int(m.group(2)), 'violations': int(m.group(3)), 'seconds': int(m.group(4)), 'first': m.group(5)}
    ran.append('quick checks against the change (scratch copy): ' + json.dumps({k: v['rc'] for k, v in det.items()}))
meta = {'property': id, 'source': f'sub-agent seed{TAG}-{id}, change {n}', 'confirmed': confirmed, 'needs_to_manifest': '', 'what_ran': ran,
        'demo_unchanged': {'rc': rc0, 'tail': o0[-300:]}, 'demo_changed': {'rc': rc1, 'tail': o1[-300:]}, 'detected_by': det, 'agent_notes': notes}
json.dump(meta, open(f'{out}/meta.json', 'w'), indent=1)
print(id, n, 'confirmed' if confirmed else 'NOT CONFIRMED', ran, {k: (v['rc'], v['first'][:140]) for k, v in det.items()})
