#!/usr/bin/env python3
"""seedsweep.py <lane> <seed> [dir ...]  -- re-run the own-property quick check of filed seeded changes with the
current harness (scratch copies only) and record the outcome in meta.json under `sweep` (keyed by VERIF_SEED)."""
import sys, os, json, subprocess, re
lane, seed = sys.argv[1], sys.argv[2]
dirs = sys.argv[3:] or sorted(os.listdir('/verif/seeded'))
commit = subprocess.run('git -C /verif rev-parse --short HEAD', shell=True, capture_output=True, text=True).stdout.strip()
for d in dirs:
    out = f'/verif/seeded/{d}'
    if not os.path.exists(f'{out}/meta.json'): continue
    meta = json.load(open(f'{out}/meta.json'))
    if not meta.get('confirmed'): continue
    own = meta['property']
    env = dict(os.environ, VERIF_SEED=seed)
    r = subprocess.run(['python3', '/verif/tools/mutrun.py', '--scratch', f'/root/scratch/sweep{lane}', f'{out}/patch.diff:{own}'], capture_output=True, text=True, errors='replace', env=env)
    res = None
    for line in r.stdout.splitlines():
        m = re.search(r' (C\d\d) rc=(\d+) viol=(\d+) (\d+)s ?(.*)', line)
        if m: res = {'rc': int(m.group(2)), 'violations': int(m.group(3)), 'seconds': int(m.group(4)), 'first': m.group(5), 'harness': commit}
    if res is None:
        res = {'rc': -1, 'violations': 0, 'seconds': 0, 'first': (r.stdout + r.stderr)[-200:], 'harness': commit}
    meta = json.load(open(f'{out}/meta.json'))
    meta.setdefault('sweep', {})[seed] = res
    json.dump(meta, open(f'{out}/meta.json', 'w'), indent=1)
    print(d, res['rc'], res['violations'], res['seconds'], res['first'][:100], flush=True)
