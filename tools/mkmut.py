#!/usr/bin/env python3
"""mkmut.py NAME FILE OLD NEW  -- create /verif/mutants/NAME.diff replacing OLD by NEW (once) in /repo/FILE"""
import sys, subprocess
name, path, old, new = sys.argv[1:5]
full = '/repo/' + path
s = open(full).read()
assert s.count(old) == 1, (name, s.count(old))
open(full, 'w').write(s.replace(old, new))
d = subprocess.run(['git', '-C', '/repo', 'diff'], capture_output=True, text=True).stdout
open(f'/verif/mutants/{name}.diff', 'w').write(d)
subprocess.run(['git', '-C', '/repo', 'checkout', '--', '.'])
print('wrote', name)
